#!/usr/bin/env python3
"""Markdown table of the seeded changes under /verif/seeded (from their meta.json)."""
import glob, json, os
rows = []
for p in sorted(glob.glob('/verif/seeded/*/meta.json')):
    m = json.load(open(p))
    first = "caught" if m.get("result", "").lower().startswith("caught") else ("MISSED, then caught after strengthening" if "MISSED" in m.get("result", "") else "?")
    rows.append((m["seed"], m["breaks_property"], m.get("needs_to_manifest", "").replace("|", "\\|"), m.get("result", "").replace("|", "\\|")))
print("| seed | property | change and what it needs to manifest | outcome |\n|---|---|---|---|")
for r in rows:
    print("| " + " | ".join(r) + " |")
