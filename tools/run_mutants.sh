#!/bin/bash
# tools/run_mutants.sh [names...]: for each /verif/mutants/<name>.diff: pinned suite on the patched tree, then the property's quick check.
cd /verif
NAMES=${@:-$(ls mutants/*.diff | xargs -n1 basename | sed 's/.diff$//')}
for n in $NAMES; do
  pid=$(python3 -c "import json;print(json.load(open('/verif/mutants/index.json'))['$n']['property'])")
  D=$(mktemp -d /tmp/mutr.XXXXXX); rmdir $D
  git -C /repo worktree add -q --detach $D HEAD
  git -C $D apply /verif/mutants/$n.diff || { echo "$n PATCH-FAILS"; git -C /repo worktree remove --force $D; continue; }
  base=$(tools/baseline_check.py $D | head -1)
  out=$(VERIF_REPO=$D ./check $pid quick 2>&1)
  v=$(echo "$out" | grep -c "^VIOLATION")
  line=$(echo "$out" | grep -E "^$pid " | sed 's/.*violations=/violations=/')
  sig=$(echo "$out" | grep -m1 "signature=" | cut -c1-140)
  echo "$n | $pid | suite: $base | VIOLATION lines=$v $line | $sig"
  git -C /repo worktree remove --force $D; git -C /repo worktree prune
done
