#!/usr/bin/env python3
"""Run the pinned test suite of a repo copy (default /repo) and compare with /root/.vp/BASELINE.json.
usage: baseline_check.py [repo_dir]   exit 0 iff every stable_pass test passes."""
import json, os, subprocess, sys, tempfile
import xml.etree.ElementTree as ET
repo = sys.argv[1] if len(sys.argv) > 1 else "/repo"
base = json.load(open("/root/.vp/BASELINE.json"))
with tempfile.TemporaryDirectory() as td:
    x = os.path.join(td, "j.xml")
    # a throw-away hypothesis example database: a rare falsifying example of a pinned hypothesis test (test_model_json_conversion fails for
    # about 1 random seed in 40, at the pinned commit too) must never be stored in <repo>/.hypothesis, where it would be replayed for ever
    env = dict(os.environ, PYTHONDONTWRITEBYTECODE="1", PYTHONPATH=repo, HYPOTHESIS_STORAGE_DIRECTORY=os.path.join(td, "hyp"))
    env.pop("PUAN_VERIF", None)
    subprocess.run(["/venv/bin/python", "-m", "pytest", "-ra", "-q", "-p", "no:cacheprovider", "--timeout=900",
                    "--continue-on-collection-errors", "--junitxml=" + x], cwd=repo, env=env,
                   stdout=subprocess.DEVNULL, stderr=subprocess.DEVNULL)
    passed, failed = set(), set()
    for tc in ET.parse(x).getroot().iter("testcase"):
        name = tc.get("classname") + "::" + tc.get("name")
        bad = any(ch.tag in ("failure", "error") for ch in tc)
        skipped = any(ch.tag == "skipped" for ch in tc)
        (failed if bad else passed).add(name) if not skipped else None
missing = sorted(set(base["stable_pass"]) - passed)
newpass = sorted(passed - set(base["stable_pass"]))
print(f"passed={len(passed)} failed={len(failed)} baseline={len(base['stable_pass'])} baseline_missing={len(missing)}")
for m in missing:
    print("  NOT PASSING:", m)
try:
    for m in newpass:
        print("  newly passing:", m)
except BrokenPipeError:
    pass
sys.exit(1 if missing else 0)
