#!/bin/bash
# tools/adopt_seed.sh <PID> <seed-name> [extra check IDs...]
# Verifies a sub-agent's seeded change from /tmp/sa/<PID>/_seed (patch applies to HEAD, pinned suite unchanged, demo fails with / passes
# without the patch), runs the property's quick check against it, and stores everything under /verif/seeded/<seed-name>/.
set -u
PID=$1; NAME=$2; shift 2; EXTRA="$@"
SRC=${SEED_ROOT:-/tmp/sa}/$PID/_seed
[ -f $SRC/patch.diff ] || git -C ${SEED_ROOT:-/tmp/sa}/$PID diff -- puan > $SRC/patch.diff
[ -s $SRC/patch.diff ] || { echo "no patch"; exit 2; }
OUT=/verif/seeded/$NAME; mkdir -p $OUT
cp $SRC/patch.diff $OUT/patch.diff; cp $SRC/demo.py $OUT/demo.py 2>/dev/null; cp $SRC/NOTES.md $OUT/NOTES.md 2>/dev/null
D=$(mktemp -d /tmp/seedchk.XXXXXX); rmdir $D
git -C /repo worktree add -q --detach $D HEAD || exit 2
cleanup() { git -C /repo worktree remove --force $D 2>/dev/null; git -C /repo worktree prune; }
trap cleanup EXIT
( cd $D && PYTHONPATH=$D PYTHONDONTWRITEBYTECODE=1 timeout 300 /venv/bin/python $OUT/demo.py >/dev/null 2>&1 ); demo_clean=$?
git -C $D apply $OUT/patch.diff || { echo "PATCH DOES NOT APPLY"; exit 2; }
( cd $D && PYTHONPATH=$D PYTHONDONTWRITEBYTECODE=1 timeout 300 /venv/bin/python $OUT/demo.py >/dev/null 2>&1 ); demo_patched=$?
base=$(/verif/tools/baseline_check.py $D | head -1)
echo "demo_clean_rc=$demo_clean demo_patched_rc=$demo_patched baseline: $base"
res=""
for id in $PID $EXTRA; do
  out=$(VERIF_REPO=$D /verif/check $id quick 2>&1)
  v=$(echo "$out" | grep -c "^VIOLATION")
  line=$(echo "$out" | grep -E "^$id " | cut -c1-200)
  sig=$(echo "$out" | grep -m1 "signature=" | cut -c1-260)
  echo "$id: VIOLATION_lines=$v | $line"; echo "   $sig"
  res="$res{\"check\":\"$id\",\"violation_lines\":$v},"
done
python3 - "$PID" "$NAME" "$demo_clean" "$demo_patched" "$base" "[${res%,}]" <<'PY'
import json,sys,os
pid,name,dc,dp,base,res=sys.argv[1:7]
meta_p=f"/verif/seeded/{name}/meta.json"
meta=json.load(open(meta_p)) if os.path.exists(meta_p) else {}
meta.update({"seed":name,"breaks_property":pid,"source":"independent sub-agent given only the property text and its own scratch worktree",
 "verified":{"patch_applies_to_repo_HEAD":True,"pinned_suite_with_patch":base,"demo_rc_without_patch":int(dc),"demo_rc_with_patch":int(dp)},
 "checks_run_against_it":json.loads(res),
 "ran":["git worktree add <scratch> HEAD; git apply patch.diff","tools/baseline_check.py <scratch>","python demo.py (clean / patched)","VERIF_REPO=<scratch> ./check <ID> quick"]})
meta.setdefault("needs_to_manifest","see NOTES.md")
json.dump(meta,open(meta_p,"w"),indent=1)
PY
