#!/bin/bash
# tools/mutant.sh <patch.diff | rev:<commit>> <tier> <ID> [<ID>...]
# Applies a patch to a scratch worktree of /repo (never to /repo itself), runs the named checks against it, removes the worktree.
set -u
SRC="$1"; TIER="$2"; shift 2
D=$(mktemp -d /tmp/mut.XXXXXX); rmdir "$D"
if [[ "$SRC" == rev:* ]]; then
  git -C /repo worktree add -q --detach "$D" "${SRC#rev:}" || exit 2
else
  git -C /repo worktree add -q --detach "$D" HEAD || exit 2
  git -C "$D" apply "$SRC" || { git -C /repo worktree remove --force "$D"; echo "PATCH DOES NOT APPLY"; exit 2; }
fi
if [[ "${RUN_BASELINE:-0}" == 1 ]]; then /verif/tools/baseline_check.py "$D"; fi
rc=0
for id in "$@"; do
  VERIF_REPO="$D" /verif/check "$id" "$TIER" 2>&1 | grep -E "VIOLATION|KNOWN-FINDING|HARNESS|^C[0-9]+ " | cut -c1-400
done
git -C /repo worktree remove --force "$D"; git -C /repo worktree prune
