#!/bin/bash
# tools/run_all.sh [quick|thorough] [IDs...]  - run checks on /repo, print one line per check, validate evidence
TIER=${1:-quick}; shift
IDS=${@:-C01 C02 C03 C04 C05 C06 C07 C08 C09 C10 C11 C12 C13 C14 C15 C16 C17 C18 C19 C20}
cd "$(dirname "$0")/.."
for id in $IDS; do
  s=$(date +%s); out=$(./check $id $TIER 2>&1); rc=$?; e=$(( $(date +%s) - s ))
  echo "$id rc=$rc ${e}s $(echo "$out" | grep -E "^$id " | cut -c1-160)"
  echo "$out" | grep -E "VIOLATION|KNOWN-FINDING|HARNESS" | cut -c1-300
done
python3-vt - <<'PY'
import json,jsonschema,glob
sch=json.load(open('/root/.vp/EVIDENCE.schema.json'))
for p in sorted(glob.glob('/verif/evidence/C*.json')):
    try: jsonschema.validate(json.load(open(p)),sch)
    except Exception as e: print("EVIDENCE INVALID",p,str(e)[:200])
jsonschema.validate(json.load(open('/verif/MANIFEST.json')), json.load(open('/root/.vp/MANIFEST.schema.json')))
print("schemas validated")
PY
