#!/bin/bash
# tools/run_seeds.sh [seed names...]: re-run every seeded change (and own mutant) against its property's quick check; prints CAUGHT / MISSED.
HERE="$(cd "$(dirname "$0")/.." && pwd)"
cd "$HERE"
NAMES=${@:-$(ls seeded)}
for n in $NAMES; do
  pid=$(python3 -c "import json;print(json.load(open('$HERE/seeded/$n/meta.json'))['breaks_property'])")
  D=$(mktemp -d /tmp/seedr.XXXXXX); rmdir $D
  git -C /repo worktree add -q --detach $D HEAD
  git -C $D apply $HERE/seeded/$n/patch.diff 2>/dev/null || { echo "$n $pid PATCH-DOES-NOT-APPLY"; git -C /repo worktree remove --force $D; continue; }
  out=$(VERIF_REPO=$D VERIF_EVIDENCE_DIR=/tmp/seedr-evidence ./check $pid quick 2>&1)
  v=$(echo "$out" | grep -c "^VIOLATION")
  n_viol=$(echo "$out" | grep -E "^$pid " | sed 's/.*violations=\([0-9]*\).*/\1/')
  if [ "$v" -gt 0 ]; then echo "$n $pid CAUGHT violations=$n_viol"; else echo "$n $pid MISSED"; fi
  git -C /repo worktree remove --force $D; git -C /repo worktree prune
done
