#!/bin/bash
# tools/final_pipeline.sh [IDs...]: thorough tier of the named checks (default: all) on /repo, then the regression of every seeded change.
HERE="$(cd "$(dirname "$0")/.." && pwd)"
cd "$HERE"
tools/run_all.sh thorough "$@"
echo "=== SEED REGRESSION ==="
tools/run_seeds.sh
