#!/bin/bash
# tools/final_pipeline.sh: thorough tier of every check on /repo, then the regression of every seeded change (quick tier).
HERE="$(cd "$(dirname "$0")/.." && pwd)"
cd "$HERE"
tools/run_all.sh thorough
echo "=== SEED REGRESSION ==="
tools/run_seeds.sh
