#!/usr/bin/env python3
"""Builds my own (non-independent) mutant patches under /verif/mutants from string replacements against /repo HEAD."""
import subprocess, os, sys, tempfile, json
PLOG = "puan/logic/plog/__init__.py"; ND = "puan/ndarray/__init__.py"; CC = "puan/modules/configurator/__init__.py"; PU = "puan/__init__.py"
M = [
 ("m01-bias-offbyone-negative", "C01", PLOG, "                            bias=-1*x.value,\n                            sign=pr.SignPy.Positive if x.sign == puan.Sign.POSITIVE else pr.SignPy.Negative\n                        ) if not issubclass(x.__class__, puan.variable) else None,\n                    ),\n                    flatten_dict.values()\n                )\n            )\n        ).to_ge_polyhedron(active, reduced)",
  "                            bias=-1*x.value + (1 if (x.sign < 0 and x.value < -1) else 0),\n                            sign=pr.SignPy.Positive if x.sign == puan.Sign.POSITIVE else pr.SignPy.Negative\n                        ) if not issubclass(x.__class__, puan.variable) else None,\n                    ),\n                    flatten_dict.values()\n                )\n            )\n        ).to_ge_polyhedron(active, reduced)"),
 ("m02-negate-value-plus-props", "C05", PLOG, "            negated.value += len(compounds)", "            negated.value += len(negated.propositions)"),
 ("m03-reduce-drops-sign-factor", "C08", PLOG, "            ) * self.sign,\n            list(filter(lambda x: x.bounds.constant is None, sub_propositions)),", "            ),\n            list(filter(lambda x: x.bounds.constant is None, sub_propositions)),"),
 ("m04-negate-reorders-self", "C09", PLOG, "        atoms = list(negated.atomic_propositions)\n        if (negated.sign == -1)", "        self.propositions.reverse()\n        atoms = list(negated.atomic_propositions)\n        if (negated.sign == -1)"),
 ("m05-solve-objective-shifted", "C15", PLOG, "                                polyhedron.A.construct, \n                                [(1, lambda x: 0)]\n                            ), ", "                                lambda d, f: polyhedron.construct(d, f)[:-1], \n                                [(1, lambda x: 0)]\n                            ), "),
 ("m06-atmost-tojson-sign", "C16", PLOG, "        d['value'] = -1*self.value\n        d.pop('sign', None)", "        d['value'] = -1*self.value if self.value < 0 else self.value\n        d.pop('sign', None)"),
 ("m07-b64-drops-index", "C17", ND, "                    [self, self.default_prio_vector, self.variables, self.index, self.dtype],", "                    [self, self.default_prio_vector, self.variables, [], self.dtype],"),
 ("m08-construct-default-max0", "C20", ND, "                                operator.attrgetter(\"bounds.lower\"),", "                                lambda v: max(v.bounds.lower, 0),"),
 ("m09-xor-allows-n-1", "C04", PLOG, "            AtMost(value=1, propositions=propositions), \n            variable=variable,\n        )\n\n    @classmethod", "            AtMost(value=max(1, len(propositions)-1) if len(propositions) >= 3 else 1, propositions=propositions), \n            variable=variable,\n        )\n\n    @classmethod"),
 ("m10-inner-prio-minus1", "C14", CC, "                inner.prio = getattr(inner, 'prio', -1)-1 ", "                inner.prio = getattr(inner, 'prio', -1)-1 if len(complement) > 1 else -1"),
 ("m11-tighten-ceil-for-large-coef", "C12", ND, "            res = numpy.floor(-(rw_bnds.T[1].reshape(-1,1) - self.A_max) / self.A)", "            res = numpy.where(numpy.abs(self.A) > 1, numpy.ceil(-(rw_bnds.T[1].reshape(-1,1) - self.A_max) / self.A), numpy.floor(-(rw_bnds.T[1].reshape(-1,1) - self.A_max) / self.A))"),
 ("m12-reduce-columns-sign", "C11", ND, "        _b = b-(A[:, active_columns]*columns_vector[active_columns]).sum(axis=1)", "        _b = b-(numpy.abs(A[:, active_columns])*columns_vector[active_columns]).sum(axis=1)"),
 ("m13-ineq-separate-any-axis", "C19", ND, "                (numpy.matmul(A, points.T) < b.reshape(-1,1)).any(axis=1)\n            )", "                (numpy.matmul(A, points.T) < b.reshape(-1,1)).any(axis=1) if points.shape[0] != A.shape[0] else (numpy.matmul(A, points.T) < b.reshape(-1,1)).any(axis=0)\n            )"),
 ("m14-shadow-no-alternating-for-2rows", "C13", ND, "                oba_inp = self_reduced_abs * numpy.array(list(map(lambda x: math.pow(-1, x), range(self_reduced_abs.shape[0]))), dtype=self.dtype).reshape(-1,1)", "                oba_inp = self_reduced_abs * numpy.array(list(map(lambda x: math.pow(-1, x if self_reduced_abs.shape[0] != 2 else 0), range(self_reduced_abs.shape[0]))), dtype=self.dtype).reshape(-1,1)"),
 ("m15-add-drops-id-when-many", "C18", CC, "        return StingyConfigurator(\n            *(self.propositions + [proposition]), \n            id=self.id,\n        )", "        return StingyConfigurator(\n            *(self.propositions + [proposition]), \n            id=self.id if len(self.propositions) < 3 else None,\n        )"),
 ("m16-errors-duplicate-edge-threshold", "C10", PLOG, "                            lambda i: i >= 2,", "                            lambda i: i >= 3,"),
 ("m17-eqbounds-minmax-negative", "C06", PLOG, "        min_val = min(can_min_val, can_max_val)\n        max_val = max(can_min_val, can_max_val)", "        min_val = min(can_min_val, can_max_val) if self.sign > 0 or len(self.propositions) < 3 else can_min_val\n        max_val = max(can_min_val, can_max_val) if self.sign > 0 or len(self.propositions) < 3 else can_max_val"),
 ("m18-variable-evaluate-np-int32", "C03", PU, "            if issubclass(val.__class__, (int, numpy.integer)):\n                return Bounds(\n                    interpretation.get(self.id), \n                    interpretation.get(self.id)\n                )", "            if issubclass(val.__class__, (int, numpy.int64)):\n                return Bounds(\n                    interpretation.get(self.id), \n                    interpretation.get(self.id)\n                )"),
 ("m19-assume-flip-only-first", "C07", PLOG, "                                    lambda x: x if self.sign > 0 else (x[1]*self.sign, x[0]*self.sign),\n                                    map(\n                                        lambda prop: prop.bounds.as_tuple(),\n                                        assumed_propositions,", "                                    lambda x: x if (self.sign > 0 or (x[0] < 0 and len(new_variable_bounds) == 1)) else (x[1]*self.sign, x[0]*self.sign),\n                                    map(\n                                        lambda prop: prop.bounds.as_tuple(),\n                                        assumed_propositions,"),
 ("m20-polyhedron-variables-sorted-by-id", "C02", PLOG, "        id_variable_map = dict(variable_id_map.values())", "        id_variable_map = dict(variable_id_map.values())\n        if len(id_variable_map) > 6: id_variable_map = dict(zip(sorted(id_variable_map), map(id_variable_map.get, sorted(id_variable_map, reverse=True))))"),
]
out = {}
for name, pid, f, old, new in M:
    d = tempfile.mkdtemp(prefix="mk."); os.rmdir(d)
    subprocess.run(["git", "-C", "/repo", "worktree", "add", "-q", "--detach", d, "HEAD"], check=True)
    try:
        p = os.path.join(d, f); s = open(p).read()
        if s.count(old) != 1:
            print("SKIP (anchor count %d): %s" % (s.count(old), name)); continue
        open(p, "w").write(s.replace(old, new))
        diff = subprocess.run(["git", "-C", d, "diff"], capture_output=True, text=True).stdout
        open(f"/verif/mutants/{name}.diff", "w").write(diff)
        out[name] = {"property": pid}
        print("ok", name)
    finally:
        subprocess.run(["git", "-C", "/repo", "worktree", "remove", "--force", d])
json.dump(out, open("/verif/mutants/index.json", "w"), indent=1)
