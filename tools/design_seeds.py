#!/usr/bin/env python3
"""Regenerates the statistics sentence and the table of DESIGN.md section 6.1 from seeded/*/meta.json."""
import glob, json, re, subprocess
p = '/verif/DESIGN.md'; s = open(p).read()
rounds = {}
for f in sorted(glob.glob('/verif/seeded/*/meta.json')):
    m = json.load(open(f)); r = m["seed"].split("-")[0]
    r = "sj10" if r == "sk10" else r          # round 10 was run in two time-boxed halves of ten properties each
    rounds.setdefault(r, [0, 0]); rounds[r][1] += 1
    if m.get("result", "").lower().startswith("caught"):
        rounds[r][0] += 1
n = sum(v[1] for v in rounds.values()); c = sum(v[0] for v in rounds.values())
stat = ", ".join(f"round {i+1}: {v[0]}/{v[1]}" for i, (k, v) in enumerate(sorted(rounds.items())))
table = subprocess.run(["/verif/tools/seed_table.py"], capture_output=True, text=True).stdout
a = s.index("| seed | property | change and what it needs to manifest | outcome |"); b = s.index("### 6.2 My own mutants")
s = s[:a] + table + "\n" + s[b:]
s = re.sub(r"Caught by the first run of the check \*as it stood at that moment\*: .*?\(misses that", f"Caught by the first run of the check *as it stood at that moment*: {stat} ({c} of {n}) (misses that", s, flags=re.S)
open(p, 'w').write(s)
print(stat, c, n)
