#!/usr/bin/env python3
"""tools/design_thorough.py <log>...: writes the 'thorough tier' block of DESIGN.md section 0.1 from run_all.sh logs (later logs win)."""
import re, sys
rows = {}
for path in sys.argv[1:]:
    for ln in open(path):
        m = re.match(r"^(C\d\d) rc=(\d+) \d+s C\d\d thorough: states=(\d+) transitions=(\d+) traces=(\d+) nontrivial=(\d+) shards=(\d+) violations=(\d+) wall=([\d.]+)s", ln)
        if m:
            rows[m.group(1)] = m.groups()[1:]
def f(n):
    n = int(n)
    return f"{n/1e6:.2f} M" if n >= 1e6 else (f"{n/1e3:.0f} k" if n >= 1e4 else str(n))
out = ["<!-- thorough:begin -->", "| id | exit | states | transitions | traces replayed on the real code | distinct non-trivial | shards | unlisted violations | wall |", "|---|---|---|---|---|---|---|---|---|"]
tot = 0.0
for pid in sorted(rows):
    rc, st, tr, tc, nt, sh, vi, w = rows[pid]
    tot += float(w)
    out.append(f"| {pid} | {rc} | {f(st)} | {f(tr)} | {f(tc)} | {f(nt)} | {sh} | {vi} | {float(w):.0f} s |")
out.append(f"\n(sum of thorough wall times {tot/3600:.1f} h; {len(rows)} checks)")
out.append("<!-- thorough:end -->")
block = "\n".join(out)
p = "/verif/DESIGN.md"; s = open(p).read()
if "<!-- thorough:begin -->" in s:
    s = re.sub(r"<!-- thorough:begin -->.*?<!-- thorough:end -->", lambda _: block, s, flags=re.S)
else:
    a = s.index("### 0.2 Findings")
    intro = ("**Thorough tier.** The last complete pass of `./check <ID> thorough` (the quick spaces plus the larger families and alphabets named in the\n"
             "table above, followed by the quick tier once more under `PYTHONHASHSEED=12345`) ran in the background on snapshots of the committed\n"
             "framework (`vp run`, against `/repo` itself): C01 C02 C05 C06 C09-C20 on the final code, C03 C04 C07 C08 on the commit before (their\n"
             "code has not changed since). Every check exited 0; C09 and C15 printed their KNOWN-FINDING lines.\n\n")
    s = s[:a] + intro + block + "\n\n" + s[a:]
open(p, "w").write(s)
print(len(rows), "rows")
