"""Plain unit tests that replay every finding of known_findings.json WITHOUT the explorer (only puan is imported).

run:  cd /repo && /venv/bin/python -m pytest -q -p no:cacheprovider /verif/findings/test_findings.py
On the repaired tree all tests pass except test_D3_open and test_D12_open_* (expected failures: open findings).
On the pinned commit (d944b25) every test fails: that is what the checks reported.
"""
import json

import pytest

import puan
import puan.logic.plog as pg
import puan.modules.configurator as cc


def test_D1_negate_mixed_children_is_complement():
    for a in (0, 1):
        for b in (0, 1):
            for c in (0, 1):
                x = pg.All(pg.Any("a", "b"), "c").evaluate({"a": a, "b": b, "c": c}).constant
                n = pg.Not(pg.All(pg.Any("a", "b"), "c")).evaluate({"a": a, "b": b, "c": c}).constant
                assert n == 1 - x
    assert pg.Not(pg.All("a", pg.All("a"))).evaluate({"a": 1}).constant == 0


def test_D2_errors_rejects_two_bounds_with_equal_hash():
    m = pg.AtLeast(1, [pg.AtLeast(1, [puan.variable("x", (1, 2))], variable="B"), puan.variable("x", (0, 3))], variable="A")
    assert m.errors() != []
    m = pg.AtLeast(1, [pg.AtLeast(1, [puan.variable("x", (-1, 5))], variable="B"), puan.variable("x", (-2, 5))], variable="A")
    assert m.errors() != []


@pytest.mark.xfail(reason="open finding D3: the repair breaks the pinned test_evaluate_propositions", strict=True)
def test_D3_open():
    B = pg.Any("a", "b", variable="B")
    M = pg.All(B, "c", variable="A")
    before = B.bounds.as_tuple()
    M.evaluate({"B": 1, "c": 1})
    assert B.bounds.as_tuple() == before


def test_D4_equal_but_different_configurators_do_not_share_results():
    k1 = cc.StingyConfigurator(pg.AtMost(1, ["a", "b", "c"], variable="R"), id="cfg")
    k2 = cc.StingyConfigurator(pg.AtMost(2, ["a", "b", "c"], variable="R"), id="cfg")
    p1 = k1.ge_polyhedron.tolist()
    p2 = k2.ge_polyhedron.tolist()
    assert p1 != p2
    j1 = cc.StingyConfigurator(pg.AtLeast(2, [puan.variable("x", (0, 3)), "y"], variable="R"), id="cfj")
    j2 = cc.StingyConfigurator(pg.AtLeast(2, [puan.variable("x", (1, 2)), "y"], variable="R"), id="cfj")
    assert [v.bounds.as_tuple() for v in j1.leafs()] != [v.bounds.as_tuple() for v in j2.leafs()]


def test_D5_json_keeps_explicit_sign():
    m = pg.AtLeast(0, ["a"], variable="A", sign=puan.Sign.POSITIVE)
    back = pg.from_json(json.loads(json.dumps(m.to_json())))
    assert back.evaluate({"a": 1}) == m.evaluate({"a": 1})


def test_D6_imply_with_str_consequence_to_json():
    assert pg.from_json(pg.Imply("a", "b").to_json()).evaluate({"a": 1, "b": 0}).constant == 0


def test_D7_xnor_over_compound_round_trip():
    m = pg.XNor(pg.AtLeast(2, ["a"]))
    back = pg.from_json(json.loads(json.dumps(m.to_json())))
    for a in (0, 1):
        assert back.evaluate({"a": a}) == m.evaluate({"a": a})


def test_D8_defaulted_rule_does_not_emit_generated_id():
    x = cc.Xor("x", "y", default=["x"])
    assert x.generated_id and "id" not in x.to_json()


def test_D9_configurator_with_exactly_one_rule_loads():
    c = cc.StingyConfigurator(pg.ExactlyOne("a", "b", variable="R1"), id="cfg")
    assert cc.StingyConfigurator.from_json(json.loads(json.dumps(c.to_json()))).id == "cfg"


def test_D10_assume_range_on_compound_keeps_definition():
    def mk():
        return pg.AtLeast(1, [pg.AtLeast(1, ["a"], variable="B")], variable="A")
    assert mk().assume({"B": (0, 1)}).evaluate({"a": 0}) == mk().evaluate({"B": (0, 1), "a": 0})


def test_D11_default_tag_survives_id_coincidence():
    c = cc.StingyConfigurator(pg.Imply("x", cc.Xor("a", "b", "c", default=["c"])), pg.Imply("x", pg.Any("a", "b")), id="cfg")
    assert sorted(c.ge_polyhedron.default_prio_vector.tolist())[0] == -2


@pytest.mark.xfail(reason="open finding D12: the reduced polyhedron comes from the compiled dependency puan_rspy", strict=True)
def test_D12_open_try_reduce_before_reports_a_non_model():
    import itertools
    import numpy

    def exact(polyhedron, objectives):
        # brute force over the box of the polyhedron handed over
        A, b = numpy.asarray(polyhedron.A), numpy.asarray(polyhedron.b)
        box = [range(v.bounds.lower, v.bounds.upper + 1) for v in polyhedron.A.variables]
        pts = [numpy.array(p) for p in itertools.product(*box) if (A @ numpy.array(p) >= b).all()]
        for w in objectives:
            yield (max(pts, key=lambda p: (int(numpy.asarray(w) @ p), tuple(-p))) if pts else None, 0, 5)

    m = pg.AtLeast(2, [pg.AtLeast(1, ["a"], variable="B"),
                       pg.AtLeast(-2, [puan.variable("t", (-2, 2))], variable="C", sign=puan.Sign.POSITIVE)], variable="A")
    for sol, _, _ in m.solve([{}, {"a": -1}], solver=exact, try_reduce_before=True):
        assert m.evaluate(sol).constant == 1, sol
