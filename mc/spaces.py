"""Exhaustive enumerators of the input spaces (Mode G model spaces, Mode M matrix spaces).

Everything here is deterministic and seed-independent; sharding is by index.
"""
import itertools

from .ast import L, N

BOOL = {'a': (0, 1), 'b': (0, 1), 'c': (0, 1), 'd': (0, 1)}
LEAVES = {
    'a': (0, 1), 'b': (0, 1), 'c': (0, 1), 'd': (0, 1),
    't': (-2, 2), 'u': (0, 3), 'n': (-3, 0),
    'k1': (1, 1), 'k0': (0, 0),
    'w': (-32768, 32767), 'v': (0, 32767),
}


def leaf(i):
    lo, hi = LEAVES[i]
    return L(i, lo, hi)


def child_range(child):
    """(min,max) value a child AST can take."""
    if child[0] == 'L':
        return child[2], child[3]
    fixed = child[5] if child[0] == 'N' else None
    if fixed is not None:
        return fixed
    return 0, 1


def thresholds(children, sign, clip=4):
    """Relevant values of a node: [min_sum, max_sum+1] of its signed child sum (one tautology below is min_sum itself,
    one contradiction above is max_sum+1), clipped to [-clip, clip]."""
    lo = sum(child_range(c)[0] for c in children)
    hi = sum(child_range(c)[1] for c in children)
    if sign < 0:
        lo, hi = -hi, -lo
    return range(max(lo, -clip), min(hi + 1, clip) + 1)


def depth1_nodes(leaf_ids, w, signs=(1, -1), clip=4):
    """All raw nodes over leaves only: 1..w distinct leaf children, sign, relevant thresholds.  id filled later."""
    out = []
    leaves = [leaf(i) for i in leaf_ids]
    for r in range(1, w + 1):
        for ch in itertools.combinations(leaves, r):
            for s in signs:
                for v in thresholds(ch, s, clip):
                    out.append(N(None, s, v, ch))
    return out


def assign_ids(ast, policy, counter=None, top=True):
    """policy: 'explicit' (A, B, C.. in DFS order), 'generated' (all None), 'root' (explicit root only)."""
    if ast[0] != 'N':
        return ast
    if counter is None:
        counter = itertools.count()
    _, _i, s, v, ch, fixed = ast
    if policy == 'explicit' or (policy == 'root' and top):
        i = "ABCDEFGHIJ"[next(counter)]
    elif policy == 'varnamed':
        i = "VAR" + "ABCDEFGHIJ"[next(counter)]      # explicit ids that LOOK like generated ones
    else:
        i = None
    return N(i, s, v, [assign_ids(c, policy, counter, False) for c in ch], fixed)


def models_d2(leaf_ids, w=2, policy='explicit', signs=(1, -1), clip=4, inner=None):
    """All raw trees of depth exactly 2 (top has >=1 compound child) plus, first, all depth-1 trees.

    Children are sets (no repetition).  Yields ASTs with ids assigned by `policy`.
    """
    leaves = [leaf(i) for i in leaf_ids]
    d1 = inner if inner is not None else depth1_nodes(leaf_ids, w, signs, clip)
    for n in d1:
        yield assign_ids(n, policy)
    items = leaves + d1
    nl = len(leaves)
    for r in range(1, w + 1):
        for idx in itertools.combinations(range(len(items)), r):
            if all(i < nl for i in idx):
                continue
            ch = [items[i] for i in idx]
            for s in signs:
                for v in thresholds(ch, s, clip):
                    yield assign_ids(N(None, s, v, ch), policy)


def diamonds(leaf_ids=('a', 'b', 'c'), policy='explicit'):
    """Depth-3 DAGs: one shared node S under two parents X, Y of (possibly) different sign/value; top over {X, Y}."""
    leaves = [leaf(i) for i in leaf_ids]
    shared = []
    for ch in ([leaves[0]], [leaves[0], leaves[1]]):
        for s in (1, -1):
            for v in thresholds(ch, s):
                shared.append(N('S' if policy == 'explicit' else None, s, v, ch))
    extra = [None, leaves[2]]
    for S in shared:
        parents = []
        for e in extra:
            ch = [S] + ([e] if e is not None else [])
            for s in (1, -1):
                for v in thresholds(ch, s):
                    parents.append((s, v, tuple(ch)))
        for (x, y) in itertools.combinations(range(len(parents)), 2):
            sx, vx, cx = parents[x]
            sy, vy, cy = parents[y]
            X = N('X' if policy != 'generated' else None, sx, vx, cx)
            Y = N('Y' if policy != 'generated' else None, sy, vy, cy)
            for s in (1, -1):
                for v in thresholds([X, Y], s):
                    yield N('T' if policy != 'generated' else None, s, v, [X, Y])


def shard_slices(n, k):
    """k index slices covering range(n)."""
    k = max(1, min(k, n))
    step = (n + k - 1) // k
    return [(i, min(i + step, n)) for i in range(0, n, step)]


# ---------------------------------------------------------------- connective formulas (C04, C05, C02, C16, C17)
from .ast import C  # noqa: E402


def conn_over(items, max_args, kinds=None, with_signed=False, n_leaf=0, need_compound=False):
    """All connective ASTs (id None) whose arguments are 1..max_args distinct members of `items`.
    need_compound: skip argument sets drawn only from the first n_leaf items."""
    kinds = kinds or ('All', 'Any', 'AtLeast', 'AtMost', 'Xor', 'XNor', 'Imply', 'Not')
    out = []
    for r in range(1, max_args + 1):
        for idx in itertools.combinations(range(len(items)), r):
            if need_compound and all(i < n_leaf for i in idx):
                continue
            args = [items[i] for i in idx]
            n = len(args)
            if 'All' in kinds:
                out.append(C('All', None, args))
            if 'Any' in kinds:
                out.append(C('Any', None, args))
            if 'AtLeast' in kinds:
                for k in range(1, n + 2):
                    out.append(C('AtLeast', None, args, k))
                if with_signed:
                    for k in (-1, 0):
                        out.append(C('AtLeast', None, args, ('sign', 1, k)))
                    for k in range(-n - 1, 2):
                        out.append(C('AtLeast', None, args, ('sign', -1, k)))
            if 'AtMost' in kinds:
                for k in range(0, n + 2):
                    out.append(C('AtMost', None, args, k))
            if 'Xor' in kinds:
                out.append(C('Xor', None, args))
            if 'ExactlyOne' in kinds:
                out.append(C('ExactlyOne', None, args))
            if 'XNor' in kinds:
                out.append(C('XNor', None, args))
            if 'Imply' in kinds and n == 2:
                out.append(C('Imply', None, args))
                out.append(C('Imply', None, args[::-1]))
            if 'Not' in kinds and n == 1:
                out.append(C('Not', None, args))
    return out


def conn_d1(leaf_ids, max_args=2, **kw):
    return conn_over([leaf(i) for i in leaf_ids], max_args, **kw)


def conn_d2(leaf_ids, max_args=2, inner_args=2, **kw):
    lv = [leaf(i) for i in leaf_ids]
    d1 = conn_over(lv, inner_args, **kw)
    return conn_over(lv + d1, max_args, n_leaf=len(lv), need_compound=True, **kw)


def name_ids(ast, policy, counter=None, top=True):
    """Give connective nodes explicit ids ('explicit': all, 'root': top only, 'generated': none).  Not() has no id slot."""
    if ast[0] != 'C':
        return ast
    if counter is None:
        counter = itertools.count()
    _, kind, _i, args, extra = ast
    i = None
    if kind != 'Not' and (policy == 'explicit' or (policy == 'root' and top)):
        i = "PQRSTUVWXYZ"[next(counter)]
    return C(kind, i, [name_ids(a, policy, counter, False) for a in args], extra)
