"""C05 - negation is the exact complement and stays in solver-safe form."""
import itertools

from ..env import np, puan, pg
from .. import ref, families
from ..ast import bind, leaves_of, compounds_of, show, is_var, solver_safe_obj, structure

ID = "C05"
RULE = ("Mode G: edges negate(), Not(), and negate() again (double negation) from every validated state of the raw model families "
        "(all value/sign combinations; atoms only, compounds only, mixed children; integer leaves; explicit/generated ids; diamonds; depth-3 "
        "chains) and from every depth-2 connective formula object (Xor/XNor/Imply structures, 3-4 real levels) x every in-bounds total "
        "assignment. oracle: evaluate(negated) == 1 - reference truth(original); solver-safe boolean states stay solver-safe (judged on the "
        "result's real structure); explicit id kept and not flagged generated (incl. explicit ids that begin with 'VAR'); id orders in which atoms and compounds interleave; every fifth model over leaves of a subclass of puan.variable. non-trivial = distinct state with non-constant truth table")
ASSUMPTIONS = [
    "states whose compound carries constant bounds on its own variable are outside this statement (negate keeps an explicit variable, bounds included)",
    "the negated object is reused across assignments (purity is C09's subject); truth of the original comes from the reference, not from evaluate()",
    "a negated model that errors() rejects (coinciding generated ids) is still evaluated; the count is reported",
]
BOUNDS = {
    "quick": "abc|abt explicit, abc generated/root, diamonds explicit, d3/abc explicit, conn2/abc generated",
    "thorough": "quick + abct, abcdt, abtn, abu w3, d3/abt generated, diamonds generated, conn2/abcd generated, conn2s/abc",
}
QUICK = ["abc/explicit", "abt/explicit", "abc/generated", "abc/root", "diamond/explicit", "d3/abc/explicit", "conn2/abc/generated", "mix3/abtn/explicit", "mix3/abtu/generated", "conn3/abc/generated", "empty/ab", "wide/1",
         "alt/mix3+abt+explicit", "alt/mix3b+abt+explicit", "altg/mix3+abtu+generated", "at/generated", "au/generated", "ab/varnamed"]
THOROUGH = QUICK + ["abct/explicit", "abcdt/explicit", "abtn/explicit", "abu/explicit/w3", "d3/abt/generated", "diamond/generated",
                    "conn2/abcd/generated", "conn2s/abc/generated", "abt/generated", "abcu/explicit"]


def shards(tier):
    return families.shards_for(QUICK if tier == "quick" else THOROUGH, 800)


def run_shard(desc, acc, tier):
    fam, lo, hi = desc
    for k, m in enumerate(families.family(fam)[lo:hi], start=lo):
        check_model(m, acc, fam, k)


def bool_leaves(leaves):
    return all(b == (0, 1) for b in leaves.values())


def check_model(m, acc, fam, k, only_edge=None):
    case0 = {"fam": fam, "k": k, "ast": m}
    try:
        obj, _ = bind(m)
        if is_var(obj) or obj.errors():
            acc.n("skipped_invalid")
            return
    except BaseException as e:
        acc.violation(None, case0, {"what": "construction / errors() raised", "exc": repr(e), "model": show(m)})
        return
    acc.n("models")
    acc.state(structure(obj))
    leaves = leaves_of(m)
    alphas = list(ref.assignments_dom(leaves, 4))
    if m[0] == 'N':
        expect = [ref.truth(m, a) for a in alphas]
    else:
        expect = [ref.connective(m, a) for a in alphas]
    if len(set(expect)) > 1:
        acc.nontriv(m)
    safe0 = solver_safe_obj(obj) and bool_leaves(leaves)
    acc.hist("solver_safe_boolean_original", safe0)
    explicit = not obj.generated_id
    edges = {}
    try:
        # every fifth model: the leaves are instances of a user-defined SUBCLASS of puan.variable (what a caller's domain classes are)
        sub = (k % 5 == 2)
        o1, _ = bind(m, leaf_subclass=sub)
        n1 = o1.negate()
        edges["negate"] = (n1, [1 - e for e in expect], safe0, obj.id if explicit else None)
        o2, _ = bind(m, leaf_subclass=sub)
        edges["Not"] = (pg.Not(o2), [1 - e for e in expect], safe0, obj.id if explicit else None)
        n2 = n1.negate()
        edges["negate.negate"] = (n2, expect, None, obj.id if explicit else None)
        n3 = n2.negate()
        edges["negate^3"] = (n3, [1 - e for e in expect], None, obj.id if explicit else None)
    except BaseException as e:
        acc.violation(None, case0, {"what": "negate raised", "exc": repr(e), "model": show(m)})
        return
    acc.n("transitions", 4)
    try:
        same = bind(m)[0]
        t1 = structure(same.negate())
        t2 = structure(same.negate())
        still = [same.evaluate(a).as_tuple() for a in alphas]
    except BaseException as e:
        acc.violation(None, case0, {"what": "negate twice on one object raised", "exc": repr(e), "model": show(m)})
        return
    if t1 != t2 or still != [(e, e) for e in expect]:
        acc.violation(None, case0, {"what": "negate() called twice on one object gives two different results / changes the object", "model": show(m)})
        return
    for name, (neg, want, must_be_safe, keep_id) in edges.items():
        if only_edge is not None and name != only_edge:
            continue
        case = dict(case0, edge=name)
        acc.state(structure(neg))
        try:
            got = [neg.evaluate(a).as_tuple() for a in alphas]
            invalid = bool(neg.errors())
        except BaseException as e:
            acc.violation(None, case, {"what": "evaluate/errors of the negated model raised", "exc": repr(e), "model": show(m), "negated": neg.to_text()})
            continue
        acc.n("traces", len(alphas))
        acc.n("transitions", len(alphas))
        acc.obs(name, got)
        acc.hist("negated_model_rejected_by_errors", invalid)
        if got != [(w, w) for w in want]:
            j = next(i for i in range(len(got)) if got[i] != (want[i], want[i]))
            acc.violation(None, case, {"what": f"{name}: not the exact complement", "model": show(m), "assignment": alphas[j],
                                       "original_truth": expect[j], "expected": want[j], "got": got[j], "negated_text": neg.to_text(),
                                       "n_bad": sum(1 for g, w in zip(got, want) if g != (w, w))})
            continue
        if must_be_safe and not solver_safe_obj(neg):
            acc.violation(None, case, {"what": f"{name}: negation of a solver-safe boolean model is not solver-safe", "model": show(m),
                                       "negated_text": neg.to_text()})
            continue
        if keep_id is not None and (neg.id != keep_id or neg.generated_id):
            acc.violation(None, case, {"what": f"{name}: explicit id not kept", "model": show(m), "id": neg.id, "generated_id": neg.generated_id})
            continue
        if keep_id is None and not neg.generated_id:
            acc.violation(None, case, {"what": f"{name}: generated id became explicit", "model": show(m), "id": neg.id})
            continue
    if k % 3000 == 0:
        acc.sample({"model": show(m), "negated": edges["negate"][0].to_text().split("\n"), "assignments": len(alphas)})


def replay(case, acc):
    from ..runner import tuplify
    check_model(tuplify(case["ast"]), acc, case["fam"], case["k"], only_edge=case.get("edge"))
