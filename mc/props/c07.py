"""C07 - assuming values is equivalent to evaluating with them."""
import itertools

from ..env import np, puan, pg
from .. import ref, families
from ..ast import bind, leaves_of, compounds_of, show, is_var, walk, structure

ID = "C07"
RULE = ("Mode G: edge assume(d) from every validated model of the families for EVERY dictionary d over <=1 or <=2 ids of the model "
        "(leaves: every constant and every proper sub-range incl. the full range; sub-propositions incl. the top and the shared node of "
        "diamonds: 0, 1, (0,1); forms int/tuple/Bounds) x every total interpretation rho of the remaining leaves; fresh objects on both "
        "sides. oracle: assume(d).evaluate(rho) == original.evaluate(d U rho) (and == reference truth with overrides when d is constant); "
        "every variable of assume(d).flatten() not named in d has bounds containing every value the reference gives it over all completions "
        "consistent with d. Plus, per model, one receiver and one dictionary OBJECT updated in place through every leaf constant and back "
        "(assume / evaluate must answer for the current content). non-trivial = distinct (model, d) whose results over rho are not all equal")
ASSUMPTIONS = [
    "filter errors()==[]",
    "the original model is re-bound for every call (evaluate with a dictionary naming a sub-proposition id mutates its receiver: C09 finding D3)",
]
BOUNDS = {
    "quick": "|d|<=2 on ab/explicit; |d|<=1 on abc/explicit, at/explicit, depth-3 chains d3/ab, wide/1 (16-bit leaves: region alphabet for assumed values, remaining leaves and completions); |d|<=1 over compound ids on diamond/explicit",
    "thorough": "|d|<=2 on abc/explicit, at/explicit, ab/generated; |d|<=1 on abt, abct, diamonds (all ids), d3/abc",
}
QUICK = [("ab/explicit", 2, "all"), ("abc/explicit", 1, "all"), ("at/explicit", 1, "all"), ("diamond/explicit", 1, "compounds"), ("wide/1", 1, "all"), ("d3/ab/explicit", 1, "all"), ("fixed/ab", 1, "compounds")]
THOROUGH = [("ab/explicit", 2, "all"), ("abc/explicit", 2, "all"), ("at/explicit", 2, "all"), ("ab/generated", 2, "all"),
            ("abt/explicit", 1, "all"), ("abct/explicit", 1, "all"), ("diamond/explicit", 1, "all"), ("diamond/generated", 1, "compounds"),
            ("d3/abc/explicit", 1, "all"), ("fixed/ab", 1, "all"), ("alt/mix3b+abt+explicit", 1, "all"), ("alt/mix3+abt+explicit", 1, "all")]


def shards(tier):
    out = []
    for fam, maxd, which in (QUICK if tier == "quick" else THOROUGH):
        out += [(fam, lo, hi, maxd, which) for (fam, lo, hi) in families.shards_for([fam], 120 if maxd == 2 else 300)]
    return out


def run_shard(desc, acc, tier):
    fam, lo, hi, maxd, which = desc
    for k, m in enumerate(families.family(fam)[lo:hi], start=lo):
        check_model(m, acc, fam, k, maxd, which)


def leaf_values(lo, hi):
    if hi - lo > 100:
        # 16-bit leaf: constants and ranges from a region alphabet (extremes, around 0, wide sub-ranges)
        consts = [lo, lo + 1, -2, -1, 0, 1, 2, hi - 1, hi]
        rngs = [(lo, hi), (lo, 0), (0, hi), (-30000, 30000), (0, 30000), (-1, 1), (1, hi)]
        return [(c, c) for c in consts if lo <= c <= hi] + [r for r in rngs if lo <= r[0] and r[1] <= hi]
    out = [(v, v) for v in range(lo, hi + 1)]
    for l in range(lo, hi + 1):
        for h in range(l + 1, hi + 1):
            out.append((l, h))
    return out


def as_value(rng, form):
    l, h = rng
    if l == h and form == 0:
        return l
    if form == 1:
        return puan.Bounds(l, h)
    return (l, h)


def check_model(m, acc, fam, k, maxd, which, only_d=None):
    case0 = {"fam": fam, "k": k, "ast": m, "maxd": maxd, "which": which}
    try:
        obj, b = bind(m)
        if obj.errors():
            acc.n("skipped_invalid")
            return
    except BaseException as e:
        acc.violation(None, case0, {"what": "construction / errors raised", "exc": repr(e), "model": show(m)})
        return
    acc.n("models")
    acc.state(m)
    leaves = leaves_of(m)
    lids = list(leaves)
    comps = compounds_of(m)
    idof = {c: b.memo[c].id for c in comps}
    # candidate entries: (kind, key, id, options)
    entries = []
    if which == "all":
        for i in lids:
            entries.append(("L", i, i, leaf_values(*leaves[i])))
    for c in comps:
        if c[5] is not None and c[5][0] == c[5][1]:
            # pre-fixed by construction: assume() is documented to return a proposition "with these new bounds set", so the assumed constant wins
            entries.append(("N", c, idof[c], [(0, 0), (1, 1)]))
            continue
        entries.append(("N", c, idof[c], [(0, 0), (1, 1), (0, 1)]))
    if only_d is None or only_d == "shared-dict":
        check_shared_dict(m, acc, case0, leaves, lids)
        if only_d == "shared-dict":
            return
    di = -1
    for r in range(1, maxd + 1):
        for sel in itertools.combinations(range(len(entries)), r):
            for vals in itertools.product(*[entries[j][3] for j in sel]):
                di += 1
                if only_d is not None and di != only_d:
                    continue
                check_d(m, [(entries[j], v) for j, v in zip(sel, vals)], di, acc, case0, leaves, lids, comps, idof, k)


def check_shared_dict(m, acc, case0, leaves, lids):
    """ONE receiver and ONE dictionary object, updated in place between the calls (the loop a caller writes when it walks through
    interpretations): assume(D) and evaluate(D) must answer for the CONTENT D has at the moment of the call. Only leaves are named, so
    the receiver is not changed by the calls (naming a sub-proposition id is C09's finding D3). The sequence walks through every
    constant of every leaf, then back, so that each content follows both a different and (once) the same content."""
    seq = [{i: v} for i in lids for v in (leaf_values(*leaves[i]) if leaves[i][1] - leaves[i][0] <= 100 else leaf_values(*leaves[i])[:6]) if v[0] == v[1]]
    seq = [{i: v[0] for i, v in d.items()} for d in seq]
    if len(lids) >= 2:
        seq += [{lids[0]: leaves[lids[0]][0], lids[1]: leaves[lids[1]][1]}, {lids[0]: leaves[lids[0]][1], lids[1]: leaves[lids[1]][0]}]
    seq = seq + seq[::-1]
    case = dict(case0, d_index="shared-dict")
    try:
        recv, _ = bind(m)
        D = {}
        for n_, d in enumerate(seq):
            D.clear()
            D.update(d)
            acc.n("traces")
            acc.n("transitions", 4)
            got = (structure(recv.assume(D)), recv.evaluate(D).as_tuple())
            fresh, _ = bind(m)
            fresh2, _ = bind(m)
            want = (structure(fresh.assume(dict(d))), fresh2.evaluate(dict(d)).as_tuple())
            if D != d:
                acc.violation(None, case, {"what": "assume / evaluate changed the caller's dictionary", "model": show(m), "given": repr(d), "now": repr(D)})
                return
            if got != want:
                acc.violation(None, case, {"what": "assume / evaluate on a dictionary object that was updated in place answers for an earlier content "
                                                   "(differs from a fresh object given a fresh dictionary of the same content)", "model": show(m),
                                           "step": n_, "content": repr(d), "previous_content": repr(seq[n_ - 1]) if n_ else None,
                                           "got_evaluate": tuple(map(int, got[1])), "want_evaluate": tuple(map(int, want[1])),
                                           "assume_structures_equal": got[0] == want[0]})
                return
    except BaseException as e:
        acc.violation(None, case, {"what": "shared-dictionary pass raised", "exc": repr(e), "model": show(m)})


def check_d(m, chosen, di, acc, case0, leaves, lids, comps, idof, k):
    case = dict(case0, d_index=di)
    d = {}
    leaf_rng = {}
    overrides = {}
    constant = True
    for j, ((kind, key, i, _o), rng) in enumerate(chosen):
        d[i] = as_value(rng, (di + j + k) % 3)
        if kind == "L":
            leaf_rng[i] = rng
            if rng[0] != rng[1]:
                constant = False
        else:
            if rng[0] == rng[1]:
                overrides[key] = rng[0]
            else:
                constant = False
    rest = {i: leaves[i] for i in lids if i not in leaf_rng}
    try:
        o1, _ = bind(m)
        asm = o1.assume(dict(d))
    except BaseException as e:
        acc.violation(None, case, {"what": "assume raised", "exc": repr(e), "model": show(m), "d": repr(d)})
        return
    acc.n("transitions")
    acc.state((m, di))
    results = set()
    for rho in ref.assignments_dom(rest, 3):
        acc.n("traces")
        acc.n("transitions", 2)
        try:
            o1, _ = bind(m)
            lhs = o1.assume(dict(d)).evaluate(dict(rho)).as_tuple()
            o2, _ = bind(m)
            both = dict(d)
            both.update(rho)
            rhs = o2.evaluate(both).as_tuple()
        except BaseException as e:
            acc.violation(None, case, {"what": "evaluate raised", "exc": repr(e), "model": show(m), "d": repr(d), "rho": rho})
            return
        lhs = (int(lhs[0]), int(lhs[1]))
        rhs = (int(rhs[0]), int(rhs[1]))
        acc.obs(lhs, rhs)
        results.add(lhs)
        if lhs != rhs:
            acc.violation(classify(chosen, lhs, rhs), case, {"what": "assume(d).evaluate(rho) != evaluate(d U rho)", "model": show(m), "d": repr(d), "rho": rho,
                                       "assume_then_evaluate": lhs, "evaluate_union": rhs})
            return
        if constant:
            alpha = dict(rho)
            alpha.update({i: r_[0] for i, r_ in leaf_rng.items()})
            want = ref.truth(m, alpha, overrides)
            if lhs != (want, want):
                acc.violation(None, case, {"what": "constant assumption: result differs from the reference truth function", "model": show(m),
                                           "d": repr(d), "rho": rho, "got": lhs, "expected": want})
                return
    if len(results) > 1:
        acc.nontriv((m, di))
    acc.hist("d_constant", constant)
    # second clause: unmentioned variables keep bounds containing every value they can take
    dom = {i: (leaf_rng[i] if i in leaf_rng else leaves[i]) for i in lids}
    rng_by_id = {}
    for alpha in ref.assignments_dom(dom, 3):
        table = {}
        ref.truth(m, alpha, overrides, table)
        for node, v in table.items():
            i = node[1] if node[0] == 'L' else idof[node]
            lo, hi = rng_by_id.get(i, (v, v))
            rng_by_id[i] = (min(lo, v), max(hi, v))
    for o in walk(asm).values():
        if o.id in d or o.id not in rng_by_id:
            continue
        lo, hi = o.bounds.as_tuple()
        rlo, rhi = rng_by_id[o.id]
        if lo > rlo or hi < rhi:
            acc.violation(None, case, {"what": "a variable not named in d got bounds that exclude a value it can take", "model": show(m),
                                       "d": repr(d), "id": str(o.id), "bounds_after_assume": (int(lo), int(hi)), "reference_range": (rlo, rhi)})
            return
    if di == 0 and k % 500 == 0:
        acc.sample({"model": show(m), "d": repr(d), "assumed": asm.to_text().split("\n") if hasattr(asm, "to_text") else repr(asm)})


def classify(chosen, lhs, rhs):
    return None


def replay(case, acc):
    from ..runner import tuplify
    check_model(tuplify(case["ast"]), acc, case["fam"], case["k"], case["maxd"], case["which"], only_d=case.get("d_index"))
