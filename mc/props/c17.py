"""C17 - base64 round trip reproduces propositions and configured polyhedra exactly."""
import itertools
import json

from ..env import np, puan, pg, cc, pnd, clear_caches
from .. import ref, cfgspace, families
from ..ast import bind, show, walk, is_var, leaves_of, structure
from ..fingerprint import fingerprint, diff

ID = "C17"
RULE = ("Mode G: edge plog.from_b64(x.to_b64()) (applied twice) from EVERY validated state of the raw families and from the states returned by their negate / assume / reduce edges (incl. nodes pre-fixed by bounds, "
        "integer leaves, generated ids), of the connective families, from every configurator object, and edge "
        "ge_polyhedron_config.from_b64(P.to_b64()) from every configurator polyhedron. oracle: self-loop on the deep fingerprint (every "
        "attribute of every reachable object: classes, ids, bounds, generated flags, signs, values, defaults, prios; matrix, dtype, "
        "variables incl. their classes, row index, default priority vector) and identical observations for the query menu on both sides "
        "(evaluate on all assignments, evaluate_propositions, to_text, to_json, errors, to_ge_polyhedron, negate, reduce; select with the same "
        "exact solver over the priority alphabet, with and without only_leafs). Plus: every configurator polyhedron unpacked a second time after the first result was overwritten in place; a size ladder of unpacked 1 KiB .. 16 MiB. non-trivial = distinct state with compound children or defaults")
ASSUMPTIONS = ["pickle/gzip/base64 of the standard library are trusted", "caches are cleared per case (C09 owns cache state)"]
BOUNDS = {"quick": "abc explicit/generated, at explicit, fixed/ab, diamonds explicit, conn2/ab generated, conn1s/abc; all 1..2-rule configurators",
          "thorough": "quick + abt, abct, conn2/abc generated/explicit, closure/ab, 3-rule configurators"}
QUICK = ["abc/explicit", "abc/generated", "at/explicit", "fixed/ab", "diamond/explicit", "conn2/ab/generated", "conn1s/abc/generated/a3", "atmostneg/explicit", "ab/varnamed", "wide/1", "alt/mix3+abt+explicit"]
THOROUGH = QUICK + ["abt/explicit", "abct/explicit", "conn2/abc/generated", "conn2/abc/explicit", "closure/ab/generated", "diamond/generated"]


def shards(tier):
    out = [("plog",) + s for s in families.shards_for(QUICK if tier == "quick" else THOROUGH, 700)]
    from .c16 import cfg_list
    n = len(cfg_list(tier))
    out += [("cfg", None, lo, min(n, lo + 10)) for lo in range(0, n, 10)]
    out += [("direct", None, 0, 1)]
    out += [("ladder", None, j, j + 1) for j in range(len(LADDER) if tier == "thorough" else len(LADDER) - 1)]
    return out


def run_shard(desc, acc, tier):
    kind, fam, lo, hi = desc
    if kind == "ladder":
        check_ladder(desc[2], acc)
        return
    if kind == "direct":
        check_direct(acc)
        return
    if kind == "plog":
        for k, m in enumerate(families.family(fam)[lo:hi], start=lo):
            check_plog(m, fam, k, acc)
    else:
        for k in range(lo, hi):
            check_cfg(k, tier, acc)


def poly_obs(P):
    return (np.asarray(P).tolist(), str(np.asarray(P).dtype), [(type(v).__name__, repr(v.id), v.bounds.as_tuple()) for v in P.variables],
            [(type(v).__name__, repr(getattr(v, "id", v))) for v in P.index])


def observe(obj, leaves):
    """Query menu on a proposition (fresh per call where a call could mutate)."""
    out = []
    out.append(("text", obj.to_text()))
    out.append(("json", json.dumps(obj.to_json(), sort_keys=True)))
    out.append(("errors", [str(e) for e in obj.errors()]))
    out.append(("variables", list(map(repr, obj.variables))))
    out.append(("flags", obj.is_tautology, obj.is_contradiction, tuple(map(int, obj.equation_bounds))))
    for a in ref.assignments_dom(leaves, 4):
        out.append(("eval", tuple(a.items()), tuple(map(int, obj.evaluate(a).as_tuple()))))
    a0 = {i: lo for i, (lo, hi) in leaves.items()}
    out.append(("evalp", sorted((repr(k), tuple(map(int, v.as_tuple()))) for k, v in obj.evaluate_propositions(a0).items())))
    try:
        out.append(("poly", poly_obs(obj.to_ge_polyhedron(active=True)), poly_obs(obj.to_ge_polyhedron(active=False))))
    except BaseException as e:   # pre-fixed compounds make the encoder refuse: must refuse identically
        out.append(("poly-exc", type(e).__name__))
    out.append(("negate", obj.negate().to_text()))
    r = obj.reduce()
    out.append(("reduce", r.to_text() if hasattr(r, "to_text") else repr(r)))
    return out


def check_plog(m, fam, k, acc):
    case = {"kind": "plog", "fam": fam, "k": k, "ast": m}
    try:
        obj, _ = bind(m)
        if is_var(obj) or obj.errors():
            acc.n("skipped_invalid")
            return
    except BaseException as e:
        acc.violation(None, case, {"what": "construction raised", "exc": repr(e), "model": show(m)})
        return
    acc.n("states_checked")
    acc.state(m)
    acc.n("traces")
    try:
        s1 = obj.to_b64()
        back = pg.from_b64(s1)
        s2 = back.to_b64()
        back2 = pg.from_b64(s2)
    except BaseException as e:
        acc.violation(None, case, {"what": "to_b64 / from_b64 raised", "exc": repr(e), "model": show(m)})
        return
    acc.n("transitions", 4)
    f0, f1, f2 = fingerprint(obj), fingerprint(back), fingerprint(back2)
    acc.obs(s1)
    if f0 != f1 or f1 != f2:
        acc.violation(None, case, {"what": "unpacked proposition is not structurally identical (deep fingerprint)", "model": show(m),
                                   "diff": diff(f0, f1) or diff(f1, f2)})
        return
    if type(back) is not type(obj) or structure(back) != structure(obj):
        acc.violation(None, case, {"what": "class / structure not reproduced", "model": show(m)})
        return
    acc.hist("packed_string_byte_identical(not demanded)", s1 == s2)
    leaves = leaves_of(m)
    try:
        o0 = observe(bind(m)[0], leaves)
        o1 = observe(pg.from_b64(s1), leaves)
    except BaseException as e:
        acc.violation(None, case, {"what": "query menu raised", "exc": repr(e), "model": show(m)})
        return
    acc.n("transitions", 2 * len(o0))
    try:
        used = bind(m)[0]
        observe(used, leaves)
        f_used = fingerprint(pg.from_b64(used.to_b64()))
    except BaseException as e:
        acc.violation(None, case, {"what": "to_b64 after the query menu raised", "exc": repr(e), "model": show(m)})
        return
    if f_used != f0:
        acc.violation(None, case, {"what": "an object that has answered queries packs to something else than a fresh identical object", "model": show(m),
                                   "diff": diff(f0, f_used)})
        return
    if o0 != o1:
        j = next(i for i in range(len(o0)) if o0[i] != o1[i])
        acc.violation(None, case, {"what": "a query answers differently after the round trip", "model": show(m), "query": o0[j][0],
                                   "before": repr(o0[j])[:600], "after": repr(o1[j])[:600]})
        return
    # non-initial states: what assume / negate / reduce RETURN is packed as well (their bounds are numpy integers, their classes plain AtLeast)
    first_leaf = next(iter(leaves)) if leaves else None
    derived = []
    try:
        derived.append(("negate", bind(m)[0].negate()))
        if first_leaf is not None:
            derived.append(("assume", bind(m)[0].assume({first_leaf: leaves[first_leaf][0]})))
            derived.append(("assume-range", bind(m)[0].assume({first_leaf: (leaves[first_leaf][0], leaves[first_leaf][1])})))
        derived.append(("reduce", bind(m)[0].reduce()))
    except BaseException as e:
        acc.violation(None, case, {"what": "transformer raised", "exc": repr(e), "model": show(m)})
        return
    for name, d in derived:
        if is_var(d):
            continue
        acc.n("transitions", 2)
        try:
            back_d = pg.from_b64(d.to_b64())
        except BaseException as e:
            acc.violation(None, dict(case, edge=name), {"what": f"to_b64 / from_b64 of the {name}() result raised", "exc": repr(e), "model": show(m)})
            return
        fd0, fd1 = fingerprint(d), fingerprint(back_d)
        if fd0 != fd1 or d.to_text() != back_d.to_text():
            acc.violation(None, dict(case, edge=name), {"what": f"unpacked {name}() result is not structurally identical", "model": show(m), "diff": diff(fd0, fd1)})
            return
        if first_leaf is not None:
            a0 = {i: lo for i, (lo, hi) in leaves.items()}
            if tuple(map(int, d.evaluate(a0).as_tuple())) != tuple(map(int, back_d.evaluate(a0).as_tuple())):
                acc.violation(None, dict(case, edge=name), {"what": f"unpacked {name}() result evaluates differently", "model": show(m)})
                return
    if any(c[0] in ('N', 'C') for c in (m[4] if m[0] == 'N' else m[3])):
        acc.nontriv(m)
    if acc.counts["states_checked"] % 6000 == 1:
        acc.sample({"model": show(m), "b64_length": len(s1), "queries_compared": len(o0)})


def cfg_obs(P, cfg):
    prios = cfgspace.prio_dicts()
    out = [("poly", poly_obs(P), np.asarray(P.default_prio_vector).tolist(), str(np.asarray(P.default_prio_vector).dtype))]
    cap = cfgspace.Capture("exact")
    sols = list(P.select(*[dict(p) for p in prios], solver=cap))
    out.append(("select", [(sorted((repr(k), int(v)) for k, v in s[0].items()), s[1], s[2]) for s in sols]))
    out.append(("objectives", [np.asarray(o).tolist() for o in cap.calls[0][1]]))
    return out


def check_cfg(k, tier, acc):
    from .c16 import cfg_list
    name, ast = cfg_list(tier)[k]
    case = {"kind": "cfg", "tier": tier, "k": k, "cfg": name}
    clear_caches()
    try:
        cfg, _ = bind(ast)
        if cfg.errors():
            acc.n("skipped_invalid")
            return
        P = cfg.ge_polyhedron
    except BaseException as e:
        acc.violation(None, case, {"what": "construction raised", "exc": repr(e)})
        return
    if len(P.A.variables) > 16:
        acc.n("skipped_too_many_columns")
        return
    acc.n("configurators")
    acc.state(ast)
    acc.n("traces", 2)
    try:
        s1 = P.to_b64()
        Q = pnd.ge_polyhedron_config.from_b64(s1)
        s2 = Q.to_b64()
        c1 = cfg.to_b64()
        cfg_back = pg.from_b64(c1)
    except BaseException as e:
        acc.violation(None, case, {"what": "to_b64 / from_b64 raised", "exc": repr(e)})
        return
    acc.n("transitions", 5)
    acc.obs(s1, c1)
    if type(Q) is not pnd.ge_polyhedron_config:
        acc.violation(None, case, {"what": "unpacked polyhedron has another class", "got": type(Q).__name__})
        return
    fP, fQ = fingerprint(P), fingerprint(Q)
    acc.hist("packed_string_byte_identical(not demanded)", s1 == s2)
    if fP != fQ or fingerprint(pnd.ge_polyhedron_config.from_b64(s2)) != fP:
        acc.violation(None, case, {"what": "unpacked configurator polyhedron is not identical (matrix, dtype, variables, index, default priority vector)",
                                   "diff": diff(fP, fQ)})
        return
    # the same string unpacked again AFTER the first result was edited in place (a polyhedron is a numpy array, users write into it):
    # the second unpacking must still be the packed polyhedron, the two results may share nothing
    try:
        Qa = pnd.ge_polyhedron_config.from_b64(s1)
        if Qa.size:
            Qa[...] = 7
        dv = np.asarray(Qa.default_prio_vector)
        if dv.size and dv.flags.writeable:
            dv[...] = -9
        Qb = pnd.ge_polyhedron_config.from_b64(s1)
        acc.n("transitions", 2)
        if fingerprint(Qb) != fP:
            acc.violation(None, case, {"what": "unpacking a string again after the first result was edited in place gives another polyhedron (results share memory)",
                                       "diff": diff(fP, fingerprint(Qb))})
            return
    except BaseException as e:
        acc.violation(None, case, {"what": "second unpacking raised", "exc": repr(e)})
        return
    f0, f1 = fingerprint(cfg), fingerprint(cfg_back)
    if f0 != f1 or type(cfg_back) is not type(cfg):
        acc.violation(None, case, {"what": "unpacked configurator object is not structurally identical", "diff": diff(f0, f1)})
        return
    try:
        o0 = cfg_obs(P, cfg)
        o1 = cfg_obs(Q, cfg)
        clear_caches()
        prios = cfgspace.prio_dicts()[::2]
        r0 = [list(cfg.select(*[dict(p) for p in prios], solver=cfgspace.Capture("exact"), only_leafs=ol)) for ol in (False, True)]
        clear_caches()
        r1 = [list(cfg_back.select(*[dict(p) for p in prios], solver=cfgspace.Capture("exact"), only_leafs=ol)) for ol in (False, True)]
        dp0, dp1 = cfg.default_prios, cfg_back.default_prios
    except BaseException as e:
        acc.violation(None, case, {"what": "query menu raised", "exc": repr(e)})
        return
    acc.n("transitions", 8)
    if o0 != o1:
        j = next(i for i in range(len(o0)) if o0[i] != o1[i])
        acc.violation(None, case, {"what": "the unpacked polyhedron answers a query differently", "query": o0[j][0], "before": repr(o0[j])[:500], "after": repr(o1[j])[:500]})
        return
    if repr(r0) != repr(r1) or dp0 != dp1:
        acc.violation(None, case, {"what": "the unpacked configurator answers select()/default_prios differently"})
        return
    acc.nontriv(ast)
    if k % 100 == 0:
        acc.sample({"configurator": name, "b64_length": len(s1), "columns": [repr(v.id) for v in P.A.variables]})


def check_direct(acc):
    """ge_polyhedron_config objects built directly: custom row index, non-default default_prio_vector, integer columns, dtype int32."""
    import itertools as it
    mats = [[[1, 1, 1, 0], [-1, -1, 0, -1]], [[0, -2, 1, 1]], [[2, 1, 1, -1], [0, 1, -1, 0], [-3, -1, -1, -1]]]
    # entries at the edges of the fixed-width integer types (a packed matrix must come back with exactly these values)
    for e in (127, 128, 129, -128, -129, 255, 256, 32767, 32768, 32769, -32768, -32769, 65535, 65536, 2 ** 31 - 1, 2 ** 31, 2 ** 31 + 1,
              -2 ** 31, -2 ** 31 - 1, 2 ** 53 + 1, 2 ** 62):
        mats.append([[e, 1, -1, 0], [0, -1, 1, 1]])
        mats.append([[1, e, -1, 2], [-e, 3, 1, -e]])
    for mi, M in enumerate(mats):
        ncol = len(M[0]) - 1
        for vi, variables in enumerate(([], [puan.variable.support_vector_variable()] + [puan.variable(f"v{j}", (0, 1) if j % 2 else (-1, 2)) for j in range(ncol)])):
            for ii, index in enumerate(([], [puan.variable(f"row{i}", (0, 1)) for i in range(len(M))], list(range(10, 10 + len(M))))):
                for di, dpv in enumerate((None, np.array([-(j + 1) for j in range(ncol)]))):
                    for dt in (np.int64, np.int32):
                        if dt is np.int32 and np.abs(np.array(M, dtype=object)).max() > 2 ** 31 - 1:
                            continue
                        case = {"kind": "direct", "m": mi, "v": vi, "i": ii, "d": di, "dtype": dt.__name__}
                        acc.n("traces")
                        acc.n("transitions", 2)
                        acc.state(("direct", mi, vi, ii, di, dt.__name__))
                        try:
                            P = pnd.ge_polyhedron_config(np.array(M), default_prio_vector=dpv, variables=variables, index=index, dtype=dt)
                            Q = pnd.ge_polyhedron_config.from_b64(P.to_b64())
                        except BaseException as e:
                            acc.violation(None, case, {"what": "direct polyhedron round trip raised", "exc": repr(e)})
                            continue
                        fP, fQ = fingerprint(P), fingerprint(Q)
                        if fP != fQ or type(Q) is not type(P):
                            acc.violation(None, case, {"what": "unpacked configurator polyhedron is not identical (matrix, dtype, variables, index, default priority vector)",
                                                       "diff": diff(fP, fQ)})
                            continue
                        acc.nontriv(("direct", mi, vi, ii, di, dt.__name__))


# size ladder: unpacked sizes from 1 KiB to 16 MiB in powers of 4 (+ one step just above 1 MiB), so that any size class a buffer, a
# length field or a limit could distinguish is crossed once. (rows, columns) of a dense int64 matrix; n groups of a configurator.
LADDER = [(6, 20), (26, 80), (104, 314), (201, 701), (418, 1254), (836, 2508)]


def check_ladder(j, acc):
    rows, cols = LADDER[j]
    case = {"kind": "ladder", "step": j}
    acc.n("traces")
    acc.state(("ladder", j))
    try:
        i_, j_ = np.indices((rows, cols + 1))
        M = ((i_ * 7 + j_ * 3) % 5 - 2).astype(np.int64)
        variables = [puan.variable.support_vector_variable()] + [puan.variable(f"v{c}", (0, 1) if c % 3 else (-2, 5)) for c in range(cols)]
        index = [puan.variable(f"r{r}") for r in range(rows)]
        dpv = -1 - (np.arange(cols) % 2)
        P = pnd.ge_polyhedron_config(M, default_prio_vector=dpv, variables=variables, index=index)
        Q = pnd.ge_polyhedron_config.from_b64(P.to_b64())
        acc.n("transitions", 2)
        same = (type(Q) is type(P) and Q.dtype == P.dtype and np.array_equal(np.asarray(P), np.asarray(Q))
                and [(v.id, v.bounds.as_tuple()) for v in P.variables] == [(v.id, v.bounds.as_tuple()) for v in Q.variables]
                and [v.id for v in P.index] == [v.id for v in Q.index]
                and np.array_equal(np.asarray(P.default_prio_vector), np.asarray(Q.default_prio_vector)))
        if not same:
            acc.violation(None, case, {"what": "large configurator polyhedron is not identical after the base64 round trip", "shape": [rows, cols + 1]})
            return
        # a model / configurator of the same scale through plog.to_b64 and through its polyhedron
        groups = max(1, cols // 10)
        rules = [cc.Xor(*[f"g{g}_{o}" for o in range(10)], default=[f"g{g}_0"], variable=f"G{g}") for g in range(groups)]
        cfg = cc.StingyConfigurator(*rules, id="big")
        back = pg.from_b64(cfg.to_b64())
        acc.n("transitions", 2)
        if type(back) is not type(cfg) or structure(back) != structure(cfg) or sorted(back.default_prios.items()) != sorted(cfg.default_prios.items()):
            acc.violation(None, case, {"what": "large configurator is not identical after the base64 round trip", "groups": groups})
            return
        if groups <= 130:
            Pc = cfg.ge_polyhedron
            Qc = pnd.ge_polyhedron_config.from_b64(Pc.to_b64())
            acc.n("transitions", 2)
            if not (np.array_equal(np.asarray(Pc), np.asarray(Qc)) and [v.id for v in Pc.variables] == [v.id for v in Qc.variables]
                    and np.array_equal(np.asarray(Pc.default_prio_vector), np.asarray(Qc.default_prio_vector))):
                acc.violation(None, case, {"what": "polyhedron of a large configurator is not identical after the base64 round trip", "groups": groups,
                                           "shape": list(Pc.shape)})
                return
        acc.nontriv(("ladder", j))
        acc.hist("ladder_unpacked_bytes", int(M.nbytes))
    except BaseException as e:
        acc.violation(None, case, {"what": "round trip of a large object raised", "exc": repr(e)[:300], "shape": [rows, cols + 1]})


def replay(case, acc):
    if case.get("kind") == "ladder":
        check_ladder(case["step"], acc)
        return
    if case.get("kind") == "direct":
        check_direct(acc)
        return
    from ..runner import tuplify
    if case["kind"] == "plog":
        check_plog(tuplify(case["ast"]), case["fam"], case["k"], acc)
    else:
        check_cfg(case["k"], case["tier"], acc)
