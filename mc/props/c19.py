"""C19 - point classification agrees with A x >= b in every input shape."""
import itertools

from ..env import np, puan, pnd

ID = "C19"
RULE = ("Mode M: EVERY matrix [b|A] with 1..2 rows x 1..2 columns over {-1,0,1,2} (quick: 2x2 over {-1,0,1}; thorough adds 3x2 / 2x3 over {-1,0,1}) x EVERY points array of "
        "(the polyhedron OBJECT is reused from matrix to matrix by in-place assignment, plus a fresh object every 4th matrix) "
        "ndim 1 (one point), ndim 2 (1..3 points), ndim 3 (1..2 groups x 1..2 points) over {-1,0,1} (plus every group / point containing -1 next to its hash-colliding twin with -2 instead), handed over as C-ordered, Fortran-ordered and non-contiguous arrays in rotation, as int64 / int32 / int8 / int16 / bool / uint8 arrays in rotation, (over {0,1} where the product would exceed 100 arrays). plus a family of large-magnitude rows / points (16-bit values times big coefficients, constants beyond 2^24 and 2^31, slack -1/0/+1). oracle: direct A p >= b per point (int64); "
        "ineqs_satisfied = all rows per point, separable = its negation, ineq_separate_points = per row 'some point of the group violates'; "
        "output shapes (), (n,), (g,n) resp. (r,), (r,), (g,r). non-trivial = distinct (matrix, points) with mixed verdicts")
ASSUMPTIONS = ["points are integer arrays of the polyhedron's column count"]
BOUNDS = {"quick": "matrices 1x1 1x2 2x1 over {-1,0,1,2}, 2x2 over {-1,0,1}; points over {-1,0,1}", "thorough": "quick + 3x2, 2x3 over {-1,0,1}, points over {-1,0,1,2} for ndim<=2"}
ALPHA = (-1, 0, 1, 2)
PV = (-1, 0, 1)


def matrices(r, c, alpha):
    for vals in itertools.product(alpha, repeat=r * (c + 1)):
        yield np.array(vals, dtype=np.int64).reshape(r, c + 1)


def point_arrays(c, pv):
    singles = [np.array(p, dtype=np.int64) for p in itertools.product(pv, repeat=c)]
    small = [np.array(p, dtype=np.int64) for p in itertools.product((0, 1), repeat=c)]
    out = [("1d", p) for p in singles]
    for n in (1, 2, 3):
        base = singles if len(singles) ** n <= 100 else small
        for combo in itertools.product(base, repeat=n):
            out.append(("2d", np.array(combo, dtype=np.int64)))
    for g in (1, 2):
        for n in (1, 2):
            base = singles if len(singles) ** (g * n) <= 100 else small
            if len(base) ** (g * n) > 300:
                continue
            for combo in itertools.product(base, repeat=g * n):
                out.append(("3d", np.array(combo, dtype=np.int64).reshape(g, n, c)))
    # hash-colliding twins (hash(-1) == hash(-2) in CPython, so tuples that differ only in -1 / -2 collide): a group and its twin
    # side by side in one stack, in both orders, and a point next to its twin in one matrix
    for n in (1, 2):
        if len(singles) ** n > 100:
            continue
        for combo in itertools.product(singles, repeat=n):
            P = np.array(combo, dtype=np.int64)
            if not (P == -1).any():
                continue
            T = np.where(P == -1, -2, P)
            out.append(("3d", np.array([P, T])))
            out.append(("3d", np.array([T, P])))
            if n == 1:
                out.append(("2d", np.array([P[0], T[0]])))
                out.append(("2d", np.array([T[0], P[0], T[0]])))
    return out


_PTS = {}


def pts_for(c, pv):
    if (c, pv) not in _PTS:
        _PTS[(c, pv)] = point_arrays(c, pv)
    return _PTS[(c, pv)]


def spaces(tier):
    sp = [(1, 1, ALPHA, PV), (1, 2, ALPHA, PV), (2, 1, ALPHA, PV), (2, 2, (-1, 0, 1), PV)]
    if tier == "thorough":
        sp += [(2, 2, ALPHA, PV), (3, 2, (-1, 0, 1), PV), (2, 3, (-1, 0, 1), (0, 1)), (2, 2, ALPHA, (-1, 0, 1, 2))]
    return sp


BIGV = (32767, -32768, 20001, -20000, 4097, 1)
BIGP = (32767, -32768, 19999, 20000, 1, 0)


def big_cases():
    """Large magnitudes (16-bit bounds times big-M sized coefficients): products and constants beyond 2^24 / 2^31 with a slack of -1, 0, +1."""
    out = []
    for a1 in BIGV:
        for a2 in BIGV:
            for p1 in BIGP:
                for p2 in BIGP:
                    v = a1 * p1 + a2 * p2
                    for d in (-1, 0, 1):
                        out.append((np.array([[v + d, a1, a2], [0, 1, 1]], dtype=np.int64), np.array([p1, p2], dtype=np.int64)))
    for bb in (2 ** 24 + 1, 2 ** 31 + 1, -(2 ** 24) - 1):
        out.append((np.array([[bb, 1, 0]], dtype=np.int64), np.array([bb, 0], dtype=np.int64)))
        out.append((np.array([[bb, 1, 0]], dtype=np.int64), np.array([bb - 1, 0], dtype=np.int64)))
    return out


_BC = []


def bc():
    if not _BC:
        _BC.extend(big_cases())
    return _BC


def check_big(lo, hi, acc):
    for k in range(lo, hi):
        M, p = bc()[k]
        P = pnd.ge_polyhedron(M.copy())
        A, b = M[:, 1:], M[:, 0]
        acc.n("traces")
        acc.n("transitions", 9)
        acc.state(("big", k))
        p2 = np.array([p, p[::-1], p])
        p3 = np.array([[p, p[::-1]], [p[::-1], p]])
        for kind, pts in (("1d", p), ("2d", p2), ("3d", p3)):
            flat = pts.reshape(-1, 2)
            holds = (flat @ A.T >= b[None, :])
            if kind == "1d":
                want = (bool(holds.all()), not bool(holds.all()), (~holds).any(axis=0))
            elif kind == "2d":
                want = (holds.all(axis=1), ~holds.all(axis=1), (~holds).any(axis=0))
            else:
                h3 = holds.reshape(2, 2, -1)
                want = (h3.all(axis=2), ~h3.all(axis=2), (~h3).any(axis=1))
            try:
                got = (P.ineqs_satisfied(pts.copy()), P.separable(pts.copy()), P.ineq_separate_points(pts.copy()))
            except BaseException as e:
                acc.violation(None, {"big": True, "k": k}, {"what": "classification API raised", "exc": repr(e), "matrix": M.tolist(), "points": pts.tolist()})
                break
            bad = [n for n, g, w in zip(("ineqs_satisfied", "separable", "ineq_separate_points"), got, want)
                   if np.asarray(g).astype(bool).tolist() != np.asarray(w).astype(bool).tolist()]
            if bad:
                acc.violation(None, {"big": True, "k": k}, {"what": f"{bad[0]} differs from direct A p >= b", "matrix": M.tolist(), "points": pts.tolist(),
                                                           "got": np.asarray(got[("ineqs_satisfied", "separable", "ineq_separate_points").index(bad[0])]).tolist()})
                break
        else:
            acc.nontriv(("big", k))


def shards(tier):
    out = [("big", lo, min(len(bc()), lo + 400)) for lo in range(0, len(bc()), 400)]
    for si, (r, c, alpha, pv) in enumerate(spaces(tier)):
        n = len(alpha) ** (r * (c + 1))
        step = 64
        out += [(si, lo, min(n, lo + step)) for lo in range(0, n, step)]
    return out


def run_shard(desc, acc, tier):
    if desc[0] == "big":
        check_big(desc[1], desc[2], acc)
        return
    si, lo, hi = desc
    r, c, alpha, pv = spaces(tier)[si]
    shared = None
    for mi, M in enumerate(itertools.islice(matrices(r, c, alpha), lo, hi), start=lo):
        # the polyhedron is a numpy array and users edit arrays in place: the same OBJECT is carried from matrix to matrix (P[...] = M), so that
        # anything a method remembers on the instance is stale for the next matrix; every 4th matrix additionally uses a fresh object
        if shared is None:
            shared = pnd.ge_polyhedron(M.copy())
        else:
            shared[...] = M
        check_matrix(M, c, pv, acc, {"tier": tier, "si": si, "mi": mi, "lo": lo, "shared": True}, P=shared)
        if mi % 4 == 0:
            check_matrix(M, c, pv, acc, {"tier": tier, "si": si, "mi": mi, "lo": lo, "shared": False})


def check_matrix(M, c, pv, acc, case, only=None, P=None):
    if P is None:
        P = pnd.ge_polyhedron(M.copy())
    A, b = M[:, 1:], M[:, 0]
    acc.n("matrices")
    mixed = False
    for pi, (kind, pts) in enumerate(pts_for(c, pv)):
        if only is not None and pi != only:
            continue
        cs = dict(case, pi=pi)
        acc.n("traces")
        acc.n("transitions", 3)
        flat = pts.reshape(-1, c)
        holds = (flat @ A.T >= b[None, :])          # (points, rows)
        if kind == "1d":
            want_sat = bool(holds.all())
            want_sep = not want_sat
            want_isp = (~holds).any(axis=0)
            shp = ((), (), (M.shape[0],))
        elif kind == "2d":
            want_sat = holds.all(axis=1)
            want_sep = ~want_sat
            want_isp = (~holds).any(axis=0)
            shp = ((len(pts),), (len(pts),), (M.shape[0],))
        else:
            g, n = pts.shape[0], pts.shape[1]
            h3 = holds.reshape(g, n, -1)
            want_sat = h3.all(axis=2)
            want_sep = ~want_sat
            want_isp = (~h3).any(axis=1)
            shp = ((g, n), (g, n), (g, M.shape[0]))
        try:
            # memory layout is not part of the value: C-ordered copies, Fortran-ordered copies and non-contiguous views in rotation
            lay = pi % 3 if pts.ndim >= 2 else 0

            # nor is the integer type the points come in: int64 / int32 / int8, and bool (0/1-valued points, what from_list builds)
            # or uint8 (non-negative points), in rotation over (matrix, points array)
            rot = (case.get("mi", 0) + pi) % 5
            zero_one = bool(((pts == 0) | (pts == 1)).all())
            dt = (np.int64, np.int32, np.int8, np.bool_ if zero_one else np.int16, np.uint8 if (pts >= 0).all() else np.int64)[rot]
            src = pts.astype(dt)

            def arg():
                if lay == 1:
                    return np.asfortranarray(src)
                if lay == 2:
                    big = np.zeros(src.shape[:-1] + (2 * src.shape[-1],), dtype=src.dtype)
                    big[..., ::2] = src
                    return big[..., ::2]
                return src.copy()
            sat = P.ineqs_satisfied(arg())
            sep = P.separable(arg())
            isp = P.ineq_separate_points(arg())
        except BaseException as e:
            acc.violation(None, cs, {"what": "classification API raised", "exc": repr(e), "matrix": M.tolist(), "points": pts.tolist()})
            return
        acc.obs(np.asarray(sat).tolist(), np.asarray(sep).tolist(), np.asarray(isp).tolist())
        for name, got, want, sh in (("ineqs_satisfied", sat, want_sat, shp[0]), ("separable", sep, want_sep, shp[1]),
                                    ("ineq_separate_points", isp, want_isp, shp[2])):
            g_ = np.asarray(got)
            if g_.shape != tuple(sh) or (g_.astype(bool) != np.asarray(want).astype(bool)).any():
                acc.violation(None, cs, {"what": f"{name} differs from direct A p >= b", "matrix": M.tolist(), "points": pts.tolist(),
                                         "got": g_.tolist(), "want": np.asarray(want).tolist(), "want_shape": list(sh), "got_shape": list(g_.shape)})
                return
        if holds.any() and (~holds).any():
            mixed = True
            acc.nontriv((M.tolist(), pts.tolist()))
    if acc.counts["matrices"] % 150 == 1:
        acc.sample({"matrix": M.tolist(), "n_points_arrays": len(pts_for(c, pv)), "example_points": pts_for(c, pv)[-1][1].tolist()})
    acc.state(M.tolist())


def replay(case, acc):
    if case.get("big"):
        check_big(case["k"], case["k"] + 1, acc)
        return
    r, c, alpha, pv = spaces(case["tier"])[case["si"]]
    if case.get("shared"):
        # re-create the history: the shared object has seen every matrix of the shard from `lo` up to `mi`
        shared = None
        for mi, M in enumerate(itertools.islice(matrices(r, c, alpha), case["lo"], case["mi"] + 1), start=case["lo"]):
            if shared is None:
                shared = pnd.ge_polyhedron(M.copy())
            else:
                shared[...] = M
            if mi < case["mi"]:
                for kind, pts in pts_for(c, pv)[:3]:
                    shared.ineqs_satisfied(pts.copy()); shared.separable(pts.copy()); shared.ineq_separate_points(pts.copy())
        check_matrix(M, c, pv, acc, dict(case), only=case.get("pi"), P=shared)
        return
    M = next(itertools.islice(matrices(r, c, alpha), case["mi"], case["mi"] + 1))
    check_matrix(M, c, pv, acc, {"tier": case["tier"], "si": case["si"], "mi": case["mi"], "shared": False}, only=case.get("pi"))
