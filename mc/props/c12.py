"""C12 - bound tightening never cuts off a feasible point; row bounds are exact."""
from ..env import np, puan, pnd
from .. import ref, mspace, families
from ..ast import bind

ID = "C12"
RULE = ("Mode M: EVERY system of the named spaces (same as C11: all coefficient/constant alphabets incl. |coefficient|>1 where the quotient "
        "is fractional, all bound boxes incl. negative and degenerate) plus the asserted polyhedra of the abc/explicit models, plus 1x2 / 2x2 systems over 16-bit boxes (exact corner formulas for row bounds and counts; tightened bounds against every solution on a completion grid). Executed: "
        "tighten_column_bounds, row_bounds, column_bounds, n_row_combinations (and tighten again on the tightened box - a non-initial state). "
        "oracle = brute force over the box: tightened bounds contain every solution, are never wider than declared, lb>ub only when there "
        "is no solution; row_bounds == exact (min,max) of A_i x - b_i; column_bounds == declared; n_row_combinations == number of distinct "
        "valuations of the columns with non-zero coefficient. non-trivial = distinct system where a bound was tightened and solutions exist")
ASSUMPTIONS = ["variable bounds within the library's default integer range (stated)", "oracle = brute force (numpy int64)"]
BOUNDS = {"quick": "1x1 1x2 1x3 2x1 2x2 2x2b 2x3q 3x2q 1x2w 2x2p big (coefficients up to +-128 with exact-multiple constants; strictly positive / strictly negative boxes, coefficients up to 3) + abc/explicit polyhedra", "thorough": "quick + 2x3 3x2 2x2T 1x3T 2x3T 3x3T + abt, diamond polyhedra"}
QUICK = ["1x1", "1x2", "1x3", "2x1", "2x2", "2x2b", "2x3q", "3x2q", "1x2w", "2x2p", "big", "narrow"]
THOROUGH = QUICK + ["2x3", "3x2", "2x2T", "1x3T", "2x3T", "3x3T"]


WIDE_BOXES = [(-32768, 32767), (-20000, 20000), (0, 32767), (-32768, 0), (0, 1)]


def wide_cases():
    """Systems over 16-bit boxes (inside the default integer range, far too large to enumerate): 1x2 and 2x2, coefficients up to 2."""
    import itertools
    out = []
    for a in itertools.product((-2, -1, 1, 2), repeat=2):
        for b in (-40000, -1, 0, 1, 40000):
            for bx in itertools.product(WIDE_BOXES[:4], WIDE_BOXES):
                out.append((np.array([[b, a[0], a[1]]], dtype=np.int64), list(bx)))
    for a in ((1, -1, -1, 2), (2, 1, -1, -2), (1, 1, -1, -1), (-1, 2, 1, 0)):
        for b in ((0, 0), (-1, 1), (1, -40000)):
            for bx in itertools.product(WIDE_BOXES[:3], repeat=2):
                out.append((np.array([[b[0], a[0], a[1]], [b[1], a[2], a[3]]], dtype=np.int64), list(bx)))
    return out


_WC = []


def wc():
    if not _WC:
        _WC.extend(wide_cases())
    return _WC


def grid(lo, hi):
    cs = {0, lo, hi, -lo, -hi, 20000, -20000, 40000, -40000, 32767, -32768}
    pts = {c + d for c in cs for d in range(-3, 4)} | {c // 2 + d for c in cs for d in (-1, 0, 1)}
    return sorted(p for p in pts if lo <= p <= hi)


def check_wide(k, acc):
    """Boxes that cannot be enumerated: row bounds / combination counts are compared with exact integer formulas over the corners; the
    tightened bounds must not cut off any point of a completion GRID that satisfies the system (every such point is a genuine solution:
    a sound but incomplete oracle, and reported as such)."""
    M, bds = wc()[k]
    P = mspace.polyhedron(M, bds)
    case = {"kind": "W", "k": k}
    desc = {"matrix": M.tolist(), "bounds": bds}
    acc.n("traces")
    acc.n("systems")
    acc.state(("W", k))
    try:
        tb = np.asarray(P.tighten_column_bounds())
        rb = np.asarray(P.row_bounds())
        nrc = np.asarray(P.n_row_combinations)
    except BaseException as e:
        acc.violation(None, case, dict(desc, what="bounds API raised", exc=repr(e)))
        return
    acc.n("transitions", 3)
    acc.obs(tb.tolist(), rb.tolist(), nrc.tolist())
    A, b = M[:, 1:], M[:, 0]
    exact = []
    for i in range(A.shape[0]):
        lo_ = sum(min(int(a) * l, int(a) * h) for a, (l, h) in zip(A[i], bds)) - int(b[i])
        hi_ = sum(max(int(a) * l, int(a) * h) for a, (l, h) in zip(A[i], bds)) - int(b[i])
        exact.append([lo_, hi_])
    if rb.tolist() != exact:
        acc.violation(None, case, dict(desc, what="row_bounds are not the exact min/max of A_i x - b_i over the box", got=rb.tolist(), exact=exact))
        return
    want = []
    for i in range(A.shape[0]):
        n = 1
        for a, (l, h) in zip(A[i], bds):
            if a != 0:
                n *= (h - l + 1)
        want.append(n)
    if [int(x) for x in nrc.tolist()] != want:
        acc.violation(None, case, dict(desc, what="n_row_combinations differs from a direct enumeration", got=nrc.tolist(), want=want))
        return
    lb, ub = tb[0], tb[1]
    if any(int(lb[j]) < bds[j][0] or int(ub[j]) > bds[j][1] for j in range(len(bds))):
        acc.violation(None, case, dict(desc, what="tightened bounds are wider than the declared bounds", got=tb.tolist()))
        return
    gpts = ref.box_points([(0, 0)] * 0) if False else None
    import itertools
    sols = 0
    for pt in itertools.product(*[grid(l, h) for (l, h) in bds]):
        x = np.array(pt, dtype=np.int64)
        if (A @ x >= b).all():
            sols += 1
            if any(pt[j] < int(lb[j]) or pt[j] > int(ub[j]) for j in range(len(bds))):
                acc.violation(None, case, dict(desc, what="tightened bounds cut off an in-bounds integer solution", tightened=tb.tolist(), solution=list(pt)))
                return
    if sols and any(int(lb[j]) > int(ub[j]) for j in range(len(bds))):
        acc.violation(None, case, dict(desc, what="lower bound above upper bound although a solution exists", tightened=tb.tolist()))
        return
    if sols:
        acc.nontriv(("W", k))


def shards(tier):
    out = [("W", "wide", lo, min(len(wc()), lo + 40)) for lo in range(0, len(wc()), 40)]
    out += [("M",) + s for s in mspace.shards_for(QUICK if tier == "quick" else THOROUGH, 4000)]
    out += [("P",) + s for s in families.shards_for(["abc/explicit"] if tier == "quick" else ["abc/explicit", "abt/explicit", "diamond/explicit"], 600)]
    return out


def run_shard(desc, acc, tier):
    kind, name, lo, hi = desc
    if kind == "W":
        for k in range(lo, hi):
            check_wide(k, acc)
        return
    if kind == "M":
        for idx in range(lo, hi):
            M, bds = mspace.case_at(name, idx)
            check(mspace.polyhedron(M, bds, idx % 3), acc, {"kind": "M", "space": name, "idx": idx})
            if idx % 4 == 0:
                # the same matrix over a box with EQUAL HASH SUMS ((lo+1, hi-1) for every wide enough column) right afterwards: anything
                # remembered under a key derived from hash(variable) is wrong for the twin
                tw = [(lo_ + 1, hi_ - 1) if hi_ - lo_ >= 2 else (lo_, hi_) for (lo_, hi_) in bds]
                if tw != list(bds):
                    check(mspace.polyhedron(M, tw), acc, {"kind": "M", "space": name, "idx": idx, "twin": True})
    else:
        for k, m in enumerate(families.family(name)[lo:hi], start=lo):
            obj, _ = bind(m)
            if obj.errors():
                continue
            P = obj.to_ge_polyhedron(active=True)
            if P.shape[1] - 1 > 8:
                continue
            check(P, acc, {"kind": "P", "fam": name, "k": k, "ast": m})


def check(P, acc, case, depth=0):
    M = np.asarray(P, dtype=np.int64)
    A, b = M[:, 1:], M[:, 0]
    bds = [tuple(int(x) for x in v.bounds.as_tuple()) for v in P.variables[1:]]
    desc = {"matrix": M.tolist(), "bounds": bds}
    pts = ref.box_points(bds)
    feas = ref.feasible_mask(A, b, pts)
    S = pts[feas]
    acc.n("traces")
    if depth == 0:
        acc.n("systems")
        acc.state((desc["matrix"], bds))
    try:
        tb = np.asarray(P.tighten_column_bounds())
        rb = np.asarray(P.row_bounds())
        cb = np.asarray(P.column_bounds())
        nrc = np.asarray(P.n_row_combinations)
    except BaseException as e:
        acc.violation(None, case, dict(desc, what="bounds API raised", exc=repr(e)))
        return
    acc.n("transitions", 4)
    acc.obs(tb.tolist(), rb.tolist(), cb.tolist(), nrc.tolist())
    if depth == 0:
        # the same four queries in the opposite order on a second, identical object: the answers may not depend on what was asked before
        try:
            variables = [puan.variable(v.id, tuple(int(x) for x in v.bounds.as_tuple())) for v in P.variables]
            Q = pnd.ge_polyhedron(M.copy(), variables=variables, index=list(P.index))
            nrc2 = np.asarray(Q.n_row_combinations)
            cb2 = np.asarray(Q.column_bounds())
            rb2 = np.asarray(Q.row_bounds())
            tb2 = np.asarray(Q.tighten_column_bounds())
            rb3 = np.asarray(P.row_bounds())          # and once more on the first object, after tighten_column_bounds
        except BaseException as e:
            acc.violation(None, case, dict(desc, what="bounds API raised in the reverse-order pass", exc=repr(e)))
            return
        acc.n("transitions", 5)
        if nrc2.tolist() != nrc.tolist() or cb2.tolist() != cb.tolist() or rb2.tolist() != rb.tolist() or tb2.tolist() != tb.tolist() or rb3.tolist() != rb.tolist():
            acc.violation(None, case, dict(desc, what="the bounds queries answer differently when asked in another order / a second time (history)",
                                           first=[tb.tolist(), rb.tolist(), cb.tolist(), nrc.tolist()], reverse=[tb2.tolist(), rb2.tolist(), cb2.tolist(), nrc2.tolist()],
                                           row_bounds_again=rb3.tolist()))
            return
    decl = np.array(bds, dtype=np.int64).T if bds else np.zeros((2, 0), dtype=np.int64)
    if cb.shape != decl.shape or (cb != decl).any():
        acc.violation(None, case, dict(desc, what="column_bounds differ from the declared variable bounds", got=cb.tolist()))
        return
    if tb.shape != decl.shape:
        acc.violation(None, case, dict(desc, what="tighten_column_bounds has the wrong shape", got=tb.tolist()))
        return
    lb, ub = tb[0], tb[1]
    if (lb < decl[0]).any() or (ub > decl[1]).any():
        acc.violation(None, case, dict(desc, what="tightened bounds are wider than the declared bounds", got=tb.tolist()))
        return
    if len(S):
        if (S < lb[None, :]).any() or (S > ub[None, :]).any():
            bad = S[((S < lb[None, :]) | (S > ub[None, :])).any(axis=1)][0]
            acc.violation(None, case, dict(desc, what="tightened bounds cut off an in-bounds integer solution", tightened=tb.tolist(), solution=bad.tolist()))
            return
        if (lb > ub).any():
            acc.violation(None, case, dict(desc, what="lower bound above upper bound although a solution exists", tightened=tb.tolist(), solution=S[0].tolist()))
            return
    # row bounds exact
    lhs = pts @ A.T - b[None, :]
    exact = np.stack([lhs.min(axis=0), lhs.max(axis=0)], axis=1)
    if rb.shape != exact.shape or (rb != exact).any():
        acc.violation(None, case, dict(desc, what="row_bounds are not the exact min/max of A_i x - b_i over the box", got=rb.tolist(), exact=exact.tolist()))
        return
    # combination counts
    want = []
    for i in range(A.shape[0]):
        nz = np.nonzero(A[i])[0]
        want.append(len(set(map(tuple, pts[:, nz].tolist()))) if len(nz) else 1)
    if nrc.tolist() != want:
        acc.violation(None, case, dict(desc, what="n_row_combinations differs from a direct enumeration", got=nrc.tolist(), want=want))
        return
    tightened = bool((lb > decl[0]).any() or (ub < decl[1]).any())
    if depth == 0:
        acc.hist("tightened", tightened)
        acc.hist("solutions", "none" if len(S) == 0 else "some")
        acc.hist("lb>ub reported", bool((lb > ub).any()))
        if tightened and len(S):
            acc.nontriv((desc["matrix"], bds))
        if acc.counts["systems"] % 25000 == 1:
            acc.sample(dict(desc, tightened=tb.tolist(), row_bounds=rb.tolist(), n_solutions=int(len(S))))
        # non-initial state: the same system on the tightened box (when it is a box)
        if tightened and not (lb > ub).any():
            variables = [P.variables[0]] + [puan.variable(v.id, (int(l), int(u))) for v, l, u in zip(P.variables[1:], lb, ub)]
            P2 = pnd.ge_polyhedron(M.copy(), variables=variables, index=list(P.index))
            check(P2, acc, dict(case, tightened_again=True), depth=1)


def replay(case, acc):
    from ..runner import tuplify
    if case["kind"] == "W":
        check_wide(case["k"], acc)
        return
    if case["kind"] == "M":
        M, bds = mspace.case_at(case["space"], case["idx"])
        if case.get("twin"):
            check(mspace.polyhedron(M, bds), acc, dict(case, twin=False))
            bds = [(lo_ + 1, hi_ - 1) if hi_ - lo_ >= 2 else (lo_, hi_) for (lo_, hi_) in bds]
            check(mspace.polyhedron(M, bds), acc, case)
            return
        check(mspace.polyhedron(M, bds, case["idx"] % 3), acc, case)
    else:
        obj, _ = bind(tuplify(case["ast"]))
        check(obj.to_ge_polyhedron(active=True), acc, case)
