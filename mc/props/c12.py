"""C12 - bound tightening never cuts off a feasible point; row bounds are exact."""
from ..env import np, puan, pnd
from .. import ref, mspace, families
from ..ast import bind

ID = "C12"
RULE = ("Mode M: EVERY system of the named spaces (same as C11: all coefficient/constant alphabets incl. |coefficient|>1 where the quotient "
        "is fractional, all bound boxes incl. negative and degenerate) plus the asserted polyhedra of the abc/explicit models. Executed: "
        "tighten_column_bounds, row_bounds, column_bounds, n_row_combinations (and tighten again on the tightened box - a non-initial state). "
        "oracle = brute force over the box: tightened bounds contain every solution, are never wider than declared, lb>ub only when there "
        "is no solution; row_bounds == exact (min,max) of A_i x - b_i; column_bounds == declared; n_row_combinations == number of distinct "
        "valuations of the columns with non-zero coefficient. non-trivial = distinct system where a bound was tightened and solutions exist")
ASSUMPTIONS = ["variable bounds within the library's default integer range (stated)", "oracle = brute force (numpy int64)"]
BOUNDS = {"quick": "1x1 1x2 1x3 2x1 2x2 2x2b 2x3q 3x2q 1x2w 2x2p big (coefficients up to +-128 with exact-multiple constants; strictly positive / strictly negative boxes, coefficients up to 3) + abc/explicit polyhedra", "thorough": "quick + 2x3 3x2 2x2T 1x3T 2x3T 3x3T + abt, diamond polyhedra"}
QUICK = ["1x1", "1x2", "1x3", "2x1", "2x2", "2x2b", "2x3q", "3x2q", "1x2w", "2x2p", "big"]
THOROUGH = QUICK + ["2x3", "3x2", "2x2T", "1x3T", "2x3T", "3x3T"]


def shards(tier):
    out = [("M",) + s for s in mspace.shards_for(QUICK if tier == "quick" else THOROUGH, 4000)]
    out += [("P",) + s for s in families.shards_for(["abc/explicit"] if tier == "quick" else ["abc/explicit", "abt/explicit", "diamond/explicit"], 600)]
    return out


def run_shard(desc, acc, tier):
    kind, name, lo, hi = desc
    if kind == "M":
        for idx in range(lo, hi):
            M, bds = mspace.case_at(name, idx)
            check(mspace.polyhedron(M, bds), acc, {"kind": "M", "space": name, "idx": idx})
            if idx % 4 == 0:
                # the same matrix over a box with EQUAL HASH SUMS ((lo+1, hi-1) for every wide enough column) right afterwards: anything
                # remembered under a key derived from hash(variable) is wrong for the twin
                tw = [(lo_ + 1, hi_ - 1) if hi_ - lo_ >= 2 else (lo_, hi_) for (lo_, hi_) in bds]
                if tw != list(bds):
                    check(mspace.polyhedron(M, tw), acc, {"kind": "M", "space": name, "idx": idx, "twin": True})
    else:
        for k, m in enumerate(families.family(name)[lo:hi], start=lo):
            obj, _ = bind(m)
            if obj.errors():
                continue
            P = obj.to_ge_polyhedron(active=True)
            if P.shape[1] - 1 > 8:
                continue
            check(P, acc, {"kind": "P", "fam": name, "k": k, "ast": m})


def check(P, acc, case, depth=0):
    M = np.asarray(P, dtype=np.int64)
    A, b = M[:, 1:], M[:, 0]
    bds = [tuple(int(x) for x in v.bounds.as_tuple()) for v in P.variables[1:]]
    desc = {"matrix": M.tolist(), "bounds": bds}
    pts = ref.box_points(bds)
    feas = ref.feasible_mask(A, b, pts)
    S = pts[feas]
    acc.n("traces")
    if depth == 0:
        acc.n("systems")
        acc.state((desc["matrix"], bds))
    try:
        tb = np.asarray(P.tighten_column_bounds())
        rb = np.asarray(P.row_bounds())
        cb = np.asarray(P.column_bounds())
        nrc = np.asarray(P.n_row_combinations)
    except BaseException as e:
        acc.violation(None, case, dict(desc, what="bounds API raised", exc=repr(e)))
        return
    acc.n("transitions", 4)
    acc.obs(tb.tolist(), rb.tolist(), cb.tolist(), nrc.tolist())
    if depth == 0:
        # the same four queries in the opposite order on a second, identical object: the answers may not depend on what was asked before
        try:
            variables = [puan.variable(v.id, tuple(int(x) for x in v.bounds.as_tuple())) for v in P.variables]
            Q = pnd.ge_polyhedron(M.copy(), variables=variables, index=list(P.index))
            nrc2 = np.asarray(Q.n_row_combinations)
            cb2 = np.asarray(Q.column_bounds())
            rb2 = np.asarray(Q.row_bounds())
            tb2 = np.asarray(Q.tighten_column_bounds())
            rb3 = np.asarray(P.row_bounds())          # and once more on the first object, after tighten_column_bounds
        except BaseException as e:
            acc.violation(None, case, dict(desc, what="bounds API raised in the reverse-order pass", exc=repr(e)))
            return
        acc.n("transitions", 5)
        if nrc2.tolist() != nrc.tolist() or cb2.tolist() != cb.tolist() or rb2.tolist() != rb.tolist() or tb2.tolist() != tb.tolist() or rb3.tolist() != rb.tolist():
            acc.violation(None, case, dict(desc, what="the bounds queries answer differently when asked in another order / a second time (history)",
                                           first=[tb.tolist(), rb.tolist(), cb.tolist(), nrc.tolist()], reverse=[tb2.tolist(), rb2.tolist(), cb2.tolist(), nrc2.tolist()],
                                           row_bounds_again=rb3.tolist()))
            return
    decl = np.array(bds, dtype=np.int64).T if bds else np.zeros((2, 0), dtype=np.int64)
    if cb.shape != decl.shape or (cb != decl).any():
        acc.violation(None, case, dict(desc, what="column_bounds differ from the declared variable bounds", got=cb.tolist()))
        return
    if tb.shape != decl.shape:
        acc.violation(None, case, dict(desc, what="tighten_column_bounds has the wrong shape", got=tb.tolist()))
        return
    lb, ub = tb[0], tb[1]
    if (lb < decl[0]).any() or (ub > decl[1]).any():
        acc.violation(None, case, dict(desc, what="tightened bounds are wider than the declared bounds", got=tb.tolist()))
        return
    if len(S):
        if (S < lb[None, :]).any() or (S > ub[None, :]).any():
            bad = S[((S < lb[None, :]) | (S > ub[None, :])).any(axis=1)][0]
            acc.violation(None, case, dict(desc, what="tightened bounds cut off an in-bounds integer solution", tightened=tb.tolist(), solution=bad.tolist()))
            return
        if (lb > ub).any():
            acc.violation(None, case, dict(desc, what="lower bound above upper bound although a solution exists", tightened=tb.tolist(), solution=S[0].tolist()))
            return
    # row bounds exact
    lhs = pts @ A.T - b[None, :]
    exact = np.stack([lhs.min(axis=0), lhs.max(axis=0)], axis=1)
    if rb.shape != exact.shape or (rb != exact).any():
        acc.violation(None, case, dict(desc, what="row_bounds are not the exact min/max of A_i x - b_i over the box", got=rb.tolist(), exact=exact.tolist()))
        return
    # combination counts
    want = []
    for i in range(A.shape[0]):
        nz = np.nonzero(A[i])[0]
        want.append(len(set(map(tuple, pts[:, nz].tolist()))) if len(nz) else 1)
    if nrc.tolist() != want:
        acc.violation(None, case, dict(desc, what="n_row_combinations differs from a direct enumeration", got=nrc.tolist(), want=want))
        return
    tightened = bool((lb > decl[0]).any() or (ub < decl[1]).any())
    if depth == 0:
        acc.hist("tightened", tightened)
        acc.hist("solutions", "none" if len(S) == 0 else "some")
        acc.hist("lb>ub reported", bool((lb > ub).any()))
        if tightened and len(S):
            acc.nontriv((desc["matrix"], bds))
        if acc.counts["systems"] % 25000 == 1:
            acc.sample(dict(desc, tightened=tb.tolist(), row_bounds=rb.tolist(), n_solutions=int(len(S))))
        # non-initial state: the same system on the tightened box (when it is a box)
        if tightened and not (lb > ub).any():
            variables = [P.variables[0]] + [puan.variable(v.id, (int(l), int(u))) for v, l, u in zip(P.variables[1:], lb, ub)]
            P2 = pnd.ge_polyhedron(M.copy(), variables=variables, index=list(P.index))
            check(P2, acc, dict(case, tightened_again=True), depth=1)


def replay(case, acc):
    from ..runner import tuplify
    if case["kind"] == "M":
        M, bds = mspace.case_at(case["space"], case["idx"])
        if case.get("twin"):
            check(mspace.polyhedron(M, bds), acc, dict(case, twin=False))
            bds = [(lo_ + 1, hi_ - 1) if hi_ - lo_ >= 2 else (lo_, hi_) for (lo_, hi_) in bds]
        check(mspace.polyhedron(M, bds), acc, case)
    else:
        obj, _ = bind(tuplify(case["ast"]))
        check(obj.to_ge_polyhedron(active=True), acc, case)
