"""C16 - JSON round trip preserves meaning, explicit ids and defaults."""
import hashlib
import itertools
import json

from ..env import np, puan, pg, cc, pnd, clear_caches
from .. import ref, cfgspace, families
from ..ast import bind, show, walk, is_var, leaves_of, structure

ID = "C16"
RULE = ("Mode G: edge from_json(json.loads(json.dumps(x.to_json()))) (applied twice) from EVERY validated state of the raw model families "
        "(explicit signs, integer leaves, explicit/generated ids), of the connective families (nested Xor/XNor/Imply/Not/AtMost, str and "
        "variable leaves, explicitly signed AtLeast) and from EVERY configurator of the C14 space (+ ExactlyOne rules). oracle: same leaves "
        "with same bounds; reloaded model evaluates to the reference truth of the original on ALL assignments; explicit ids kept, generated "
        "ids neither emitted nor turned explicit; second application is a self-loop on the structural key (modulo generated names); configurators: same default priorities, same "
        "polyhedron and same optimal leaf selections, all modulo the names of generated ids. non-trivial = distinct state with non-constant "
        "truth table")
ASSUMPTIONS = [
    "states whose compound carries constant bounds on its own variable have no JSON form and are outside the statement",
    "generated ids are compared modulo renaming (a generated id hashes the constructor's sign argument, which JSON loading does not pass)",
]
BOUNDS = {"quick": "abc explicit/generated, at explicit, conn1s/abc a3, conn2/abc generated/explicit/root (str + variable leaves), closure/ab, all 1..2-rule configurators",
          "thorough": "quick + abt, abct, diamonds, conn2s/abc, conn2/abcd, 3-rule configurators"}
QUICK = ["abc/explicit", "abc/generated", "at/explicit", "conn1s/abc/generated/a3", "conn1/abcd/explicit/a3", "conn2/abc/generated", "conn2/abc/explicit",
         "conn2/abc/root", "closure/ab/generated", "mix3/abtn/explicit", "atmostneg/generated", "atmostneg/explicit", "ab/varnamed", "empty/ab", "wide/1", "alt/mix3+abt+explicit", "altg/mix3+abtu+generated"]
THOROUGH = QUICK + ["abt/explicit", "abct/explicit", "diamond/explicit", "diamond/generated", "conn2s/abc/generated", "conn2/abcd/generated", "abt/generated"]


def shards(tier):
    out = [("plog",) + s for s in families.shards_for(QUICK if tier == "quick" else THOROUGH, 1200)]
    n = len(cfg_list(tier))
    out += [("cfg", None, lo, min(n, lo + 12)) for lo in range(0, n, 12)]
    return out


_CL = {}


def cfg_list(tier):
    if tier not in _CL:
        from .c14 import cfgs2 as cfgs
        from ..ast import C, L
        extra = [("ExactlyOne(a,b) [explicit]", C('Cfg', "cfg", [C('ExactlyOne', "R1", [L("a"), L("b")])])),
                 ("ExactlyOne(a,b,c) & a->x [generated]", C('Cfg', "cfg", [C('ExactlyOne', None, [L("a"), L("b"), L("c")]), C('Imply', None, [L("a"), L("x")])])),
                 ("Not(All(a,b)) [generated]", C('Cfg', "cfg", [C('Not', None, [C('All', None, [L("a"), L("b")])]), C('Any', None, [L("a"), L("x")])])),
                 ("AtMost2(n[0,3],a) & ccXor(a,b|b) [explicit, integer leaf]", C('Cfg', "cfg", [C('AtMost', "R1", [L("n", 0, 3), L("a")], 2), cfgspace.ccXor("ab", "b", "R2")])),
                 ("AtLeast(-1,[t[-2,2]],sign=+) & Any(a,b) [generated, explicit sign]", C('Cfg', "cfg", [C('AtLeast', None, [L("t", -2, 2)], ('sign', 1, -1)), C('Any', None, [L("a"), L("b")])])),
                 ("XNor(a,b) & ccAny(x,y|x) [explicit]", C('Cfg', "cfg", [C('XNor', "R1", [L("a"), L("b")]), cfgspace.ccAny("xy", "x", "R2")]))]
        _CL[tier] = list(cfgs(tier)) + extra
    return _CL[tier]


def run_shard(desc, acc, tier):
    kind, fam, lo, hi = desc
    if kind == "plog":
        for k, m in enumerate(families.family(fam)[lo:hi], start=lo):
            for way in (("var", "str") if m[0] == 'C' else ("var",)):
                check_plog(m, fam, k, way, acc)
    else:
        for k in range(lo, hi):
            check_cfg(k, tier, acc)


class DocumentChanged(Exception):
    pass


def roundtrip(obj, loader):
    """to_json -> json text -> ONE dictionary object that is loaded twice (a kept document); the second load is what gets judged, and
    the loader may not have consumed or changed the caller's dictionary in between."""
    doc = obj.to_json()
    txt = json.dumps(doc)
    d = json.loads(txt)
    loader(d)
    if d != json.loads(txt):
        raise DocumentChanged("from_json changed the caller's document: " + json.dumps(d)[:200])
    return loader(d), json.loads(txt)


def json_ids(doc, out=None):
    """ids emitted for compound nodes of a JSON document."""
    if out is None:
        out = []
    if isinstance(doc, dict):
        compound = any(k in doc for k in ("propositions", "condition", "consequence", "proposition"))
        if compound and "id" in doc:
            out.append(doc["id"])
        for k, v in doc.items():
            if k != "default":
                json_ids(v, out)
    elif isinstance(doc, list):
        for v in doc:
            json_ids(v, out)
    return out


def explicit_ids(obj):
    return {o.id for o in walk(obj).values() if not is_var(o) and not o.generated_id}


def generated_ids(obj):
    return {o.id for o in walk(obj).values() if not is_var(o) and o.generated_id}


def leaf_set(obj):
    return {(o.id, o.bounds.as_tuple()) for o in walk(obj).values() if is_var(o)}


def check_plog(m, fam, k, way, acc):
    case = {"kind": "plog", "fam": fam, "k": k, "ast": m, "way": way}
    try:
        obj, _ = bind(m, leaf_as_str=(way == "str"))
        if is_var(obj) or obj.errors():
            acc.n("skipped_invalid")
            return
    except BaseException as e:
        acc.violation(None, case, {"what": "construction raised", "exc": repr(e), "model": show(m)})
        return
    acc.n("states_checked")
    acc.state((m, way))
    acc.n("traces")
    acc.n("transitions", 4)
    try:
        back, doc = roundtrip(obj, pg.from_json)
        back2, doc2 = roundtrip(back, pg.from_json)
    except BaseException as e:
        acc.violation(classify_exc(m, e), case, {"what": "to_json / from_json raised", "exc": repr(e), "model": show(m)})
        return
    acc.obs(json.dumps(doc, sort_keys=True))
    if json.dumps(obj.to_json(), sort_keys=True) != json.dumps(doc, sort_keys=True):
        acc.violation(None, case, {"what": "to_json() called twice on one object gives two different documents", "model": show(m)})
        return
    leaves = leaves_of(m)
    if leaf_set(back) != {(i, tuple(b)) for i, b in leaves.items()}:
        acc.violation(None, case, {"what": "leaf variables / bounds changed", "model": show(m), "json": doc, "got": sorted(map(repr, leaf_set(back)))})
        return
    alphas = list(ref.assignments_dom(leaves, 4))
    want = [(ref.truth(m, a) if m[0] == 'N' else ref.connective(m, a)) for a in alphas]
    try:
        got = [back.evaluate(a).as_tuple() for a in alphas]
    except BaseException as e:
        acc.violation(None, case, {"what": "evaluate of the reloaded model raised", "exc": repr(e), "model": show(m), "json": doc})
        return
    acc.n("transitions", len(alphas))
    if got != [(w, w) for w in want]:
        j = next(i for i in range(len(got)) if got[i] != (want[i], want[i]))
        acc.violation(classify_sem(m, obj), case, {"what": "reloaded model evaluates differently", "model": show(m), "json": doc, "assignment": alphas[j],
                                                   "expected": want[j], "got": got[j], "reloaded": back.to_text().split("\n")})
        return
    ex0, ex1 = explicit_ids(obj), explicit_ids(back)
    emitted = set(json_ids(doc))
    if not emitted <= ex0:
        acc.violation(None, case, {"what": "an id was emitted for a node whose id is generated", "model": show(m), "json": doc, "emitted": sorted(emitted - ex0)})
        return
    if ex1 != ex0 & (emitted | ex1) or not ex1 <= ex0:
        acc.violation(None, case, {"what": "explicit ids not preserved", "model": show(m), "json": doc, "before": sorted(ex0), "after": sorted(ex1)})
        return
    if back.generated_id != obj.generated_id or (not obj.generated_id and back.id != obj.id):
        acc.violation(None, case, {"what": "top id / generated flag changed", "model": show(m), "json": doc})
        return
    # user-visible explicit ids (those present in the AST) must all survive
    ast_ids = {a[1] if a[0] == 'N' else a[2] for a in ast_nodes(m)} - {None}
    if not ast_ids <= ex1:
        acc.violation(None, case, {"what": "an explicitly given id was lost", "model": show(m), "json": doc, "lost": sorted(ast_ids - ex1)})
        return
    if canon_struct(back2)[0] != canon_struct(back)[0]:
        acc.violation(None, case, {"what": "second round trip changes the structure again (modulo generated names)", "model": show(m), "json1": doc, "json2": doc2})
        return
    if len(set(want)) > 1:
        acc.nontriv((m, way))
    if acc.counts["states_checked"] % 9000 == 1:
        acc.sample({"model": show(m), "json": doc})


def ast_nodes(a, out=None):
    if out is None:
        out = []
    if a[0] in ('N', 'C'):
        out.append(a)
        for c in (a[4] if a[0] == 'N' else a[3]):
            ast_nodes(c, out)
    return out


def classify_exc(m, e):
    if "'str' object has no attribute 'to_json'" in repr(e):
        return "D6:imply-str-consequence-to_json"
    return None


def classify_sem(m, obj):
    for o in walk(obj).values():
        if type(o).__name__ == "AtLeast" and int(o.sign) != (1 if o.value > 0 else -1):
            return "D5:atleast-to_json-drops-sign"
    return None


# ---------------------------------------------------------------- configurators, modulo generated names
def canon_names(obj):
    """id -> canonical name: explicit ids as they are, generated ids by their definition (recursively)."""
    names = {}

    def name(o):
        if o.id in names:
            return names[o.id]
        if is_var(o) or not o.generated_id:
            names[o.id] = ("id", o.id)
        else:
            kids = tuple(sorted(repr(name(p)) for p in o.propositions))
            names[o.id] = ("gen", hashlib.sha256(repr((int(o.sign), int(o.value), kids)).encode()).hexdigest()[:16])
        return names[o.id]
    for o in walk(obj).values():
        name(o)
    return names


def canon_struct(obj):
    names = canon_names(obj)
    recs = set()
    for o in walk(obj).values():
        if is_var(o):
            recs.add(("variable", names[o.id], o.bounds.as_tuple()))
        else:
            recs.add((type(o).__name__, names[o.id], int(o.sign), int(o.value), tuple(sorted(repr(names[p.id]) for p in o.propositions)),
                      o.bounds.as_tuple(), getattr(o, "prio", None), tuple(sorted(repr(names[d.id]) if d.id in names else repr(d.id) for d in getattr(o, "default", [])))))
    return recs, names


def canon_poly(P, names):
    ids = [v.id for v in P.A.variables]
    nm = [repr(names[i]) for i in ids]
    M = np.asarray(P, dtype=np.int64)
    rows = sorted((int(r[0]), tuple(sorted((nm[j], int(c)) for j, c in enumerate(r[1:]) if c != 0))) for r in M)
    dpv = sorted(zip(nm, np.asarray(P.default_prio_vector).tolist()))
    return rows, dpv, sorted(nm)


def optimal_leaf_sets(cfg, P, prios):
    ids = [v.id for v in P.A.variables]
    leaf_ids = sorted({o.id for o in walk(cfg).values() if type(o) == puan.variable})
    pts, feas = cfgspace.feasible_points(P)
    F = pts[feas]
    objs = P._vectors_from_prios(prios)
    out = []
    lidx = [ids.index(i) for i in leaf_ids]
    for o in np.asarray(objs):
        if len(F) == 0:
            out.append(None)
            continue
        v = F @ o.astype(np.int64)
        best = F[v == v.max()]
        out.append(sorted(set(tuple((leaf_ids[n], int(x[j])) for n, j in enumerate(lidx)) for x in best)))
    return out


def check_cfg(k, tier, acc):
    name, ast = cfg_list(tier)[k]
    case = {"kind": "cfg", "tier": tier, "k": k, "cfg": name}
    clear_caches()
    try:
        cfg, _ = bind(ast)
        if cfg.errors():
            acc.n("skipped_invalid")
            return
    except BaseException as e:
        acc.violation(None, case, {"what": "construction raised", "exc": repr(e)})
        return
    acc.n("configurators")
    acc.state(ast)
    acc.n("traces")
    acc.n("transitions", 4)
    try:
        back, doc = roundtrip(cfg, cc.StingyConfigurator.from_json)
        back2, doc2 = roundtrip(back, cc.StingyConfigurator.from_json)
    except BaseException as e:
        acc.violation(None, case, {"what": "configurator to_json / from_json raised", "exc": repr(e)})
        return
    acc.obs(json.dumps(doc, sort_keys=True))
    if type(back).__name__ != "StingyConfigurator" or back.id != cfg.id:
        acc.violation(None, case, {"what": "reloaded object is not the configurator with the same id", "json": doc})
        return
    emitted = set(json_ids(doc))
    ex0 = explicit_ids(cfg)
    if not emitted <= ex0:
        acc.violation("cc-default-rule-emits-generated-id" if emitted_generated_on_defaulted(doc, ex0) else None, case,
                      {"what": "an id was emitted for a node whose id is generated", "json": doc, "emitted": sorted(emitted - ex0)})
        return
    s0, n0 = canon_struct(cfg)
    s1, n1 = canon_struct(back)
    if s0 != s1:
        acc.violation(None, case, {"what": "structure (classes, explicit ids, signs, values, children, defaults, prio tags) changed, modulo generated names",
                                   "json": doc, "only_before": sorted(map(repr, s0 - s1))[:6], "only_after": sorted(map(repr, s1 - s0))[:6]})
        return
    try:
        clear_caches()
        P0 = cfg.ge_polyhedron
        dp0 = sorted((repr(n0[i]), p) for i, p in cfg.default_prios.items())
        clear_caches()
        P1 = back.ge_polyhedron
        dp1 = sorted((repr(n1[i]), p) for i, p in back.default_prios.items())
    except BaseException as e:
        acc.violation(None, case, {"what": "ge_polyhedron / default_prios raised", "exc": repr(e), "json": doc})
        return
    if dp0 != dp1:
        acc.violation(None, case, {"what": "default priorities changed", "json": doc, "before": dp0, "after": dp1})
        return
    if canon_poly(P0, n0) != canon_poly(P1, n1):
        acc.violation(None, case, {"what": "polyhedron changed (modulo generated names)", "json": doc})
        return
    if len(P0.A.variables) <= 16:
        prios = cfgspace.prio_dicts()[::3]
        if optimal_leaf_sets(cfg, P0, prios) != optimal_leaf_sets(back, P1, prios):
            acc.violation(None, case, {"what": "optimal leaf selections differ after the round trip", "json": doc})
            return
    if canon_struct(back2)[0] != s1:
        acc.violation(None, case, {"what": "second round trip changes the structure again (modulo generated names)", "json1": doc, "json2": doc2})
        return
    if generated_ids(cfg) != generated_ids(back):
        acc.hist("needed_generated_renaming", True)
    else:
        acc.hist("needed_generated_renaming", False)
    acc.nontriv(ast)
    if k % 100 == 0:
        acc.sample({"configurator": name, "json": doc})


def emitted_generated_on_defaulted(doc, ex0):
    return False


def replay(case, acc):
    from ..runner import tuplify
    if case["kind"] == "plog":
        check_plog(tuplify(case["ast"]), case["fam"], case["k"], case["way"], acc)
    else:
        check_cfg(case["k"], case["tier"], acc)
