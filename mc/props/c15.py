"""C15 - solver bridge: objectives, solutions and ids stay aligned."""
import itertools

from ..env import np, puan, pg, cc, pnd, clear_caches
from .. import ref, cfgspace, families
from ..ast import bind, show, walk, is_var, leaves_of, compounds_of, solver_safe_obj

ID = "C15"
RULE = ("Mode G: EVERY validated model of the plog families (explicit and generated ids, integer leaves, connective structures) x a fixed "
        "alphabet of objective dictionaries (empty, single, mixed signs, a sub-proposition id, an unknown id) and EVERY configurator of the "
        "C14 space x the priority alphabet, each x the environment answers of the solver callable {exact optimum by brute force, tagged "
        "vector 10+j, None, raises one of 10 exception shapes (with message, without arguments, several arguments)} (non-default answers are the deviations), the solver also as a falsy callable object (first 12 models per family), single-objective and empty batches, the caller's dictionaries unchanged, x include_virtual_variables x try_reduce_before (solve) / only_leafs (select). oracle: callable gets "
        "the asserted polyhedron (equal to a separately built one) and one objective per request with entry j = weight of column j's id "
        "(solve) resp. shadow compression of [default_prio_vector; u] with u built by id (select); reported dictionaries map every column "
        "id to the value at that column minus generated helpers / non-leafs; exact answers are optimal over the brute-force feasible set "
        "and satisfy solver-safe models; None -> {}; exception -> InfeasibleError from select. non-trivial = distinct (model, objective) "
        "with >=2 feasible points of different objective value")
ASSUMPTIONS = [
    "objective dictionary keys are str ids (documented usage)", "the built-in beta solver (solver=None) is not an oracle and is not exercised",
    "ndint_compress itself is C13's subject; here only the stacking by id is re-derived",
]
BOUNDS = {"quick": "solve: abc explicit, ab generated / VAR-named, at explicit, conn2/ab generated; select: all 1..2-rule configurators (both id policies)",
          "thorough": "solve: + abt, abct, diamonds, conn2/abc generated; select: + 3-rule configurators"}
OBJECTIVES = [{}, {"a": 1}, {"a": -1, "b": 2}, {"a": 1, "b": 1, "c": 1, "t": 1}, {"a": -1, "b": -1, "c": -1, "t": -2}, {"B": 3, "a": -1},
              {"nope": 4}, {"c": 2, "t": -1, "A": 1}]
QUICK = ["abc/explicit", "ab/generated", "ab/varnamed", "at/explicit", "conn2/ab/generated", "d3/ab/explicit", "d3/ab/generated"]
THOROUGH = QUICK + ["abc/generated", "abt/explicit", "abct/explicit", "diamond/explicit", "diamond/generated", "conn2/abc/generated"]


def shards(tier):
    out = [("solve",) + s for s in families.shards_for(QUICK if tier == "quick" else THOROUGH, 500)]
    from .c14 import cfgs2 as cfgs
    n = len(cfgs(tier))
    out += [("select", None, lo, min(n, lo + 10)) for lo in range(0, n, 10)]
    return out


def run_shard(desc, acc, tier):
    kind, fam, lo, hi = desc
    if kind == "solve":
        for k, m in enumerate(families.family(fam)[lo:hi], start=lo):
            check_solve(m, fam, k, acc)
    else:
        for k in range(lo, hi):
            check_select(k, tier, acc)


def same_polyhedron(P, Q):
    return (np.asarray(P).tolist() == np.asarray(Q).tolist()
            and [(v.id, v.bounds.as_tuple()) for v in P.variables] == [(v.id, v.bounds.as_tuple()) for v in Q.variables])


def check_solve(m, fam, k, acc):
    case = {"kind": "solve", "fam": fam, "k": k, "ast": m}
    try:
        obj, _ = bind(m)
        if is_var(obj) or obj.errors():
            acc.n("skipped_invalid")
            return
        Pplain = obj.to_ge_polyhedron(active=True)
        Pred = obj.to_ge_polyhedron(active=True, reduced=True)
    except BaseException as e:
        acc.violation(None, case, {"what": "construction raised", "exc": repr(e), "model": show(m)})
        return
    if Pplain.A.shape[1] > 12:
        acc.n("skipped_too_many_columns")
        return
    acc.n("models")
    acc.state(m)
    leaves = leaves_of(m)
    safe = solver_safe_obj(obj)
    shrinks = Pred.A.shape[1] < Pplain.A.shape[1]
    acc.hist("try_reduce_before_drops_columns", shrinks)
    # try_reduce_before=True hands the solver the REDUCED asserted polyhedron (fewer helper columns for nested models): every clause is
    # then about that polyhedron's columns. Explored for every model whose reduced polyhedron differs, and for every fourth other model.
    for red in ((False, True) if (shrinks or not same_polyhedron(Pplain, Pred) or k % 4 == 0) else (False,)):
        check_solve_flags(m, case, obj, Pred if red else Pplain, red, leaves, safe, acc, Pplain)
    if k % 2500 == 0:
        acc.sample({"model": show(m), "columns": [str(v.id) for v in Pplain.A.variables], "objectives": OBJECTIVES[:3],
                    "columns_with_try_reduce_before": [str(v.id) for v in Pred.A.variables]})


def classify_unsat(m, red, leaves, alpha, Pplain):
    """Model of known finding D12 (root cause in the compiled dependency puan_rspy): with try_reduce_before=True the REDUCED polyhedron
    that puan_rspy returns merges a conjunction of compounds into one row whose big-M ignores negative lower bounds, so it admits points
    that are no models. The signature applies only if: the call asked for the reduction, the model has a leaf with a negative lower bound,
    and the plain (unreduced) polyhedron of the same model does exclude the reported point - i.e. everything on the Python side (columns,
    ids, alignment, feasibility for the polyhedron handed over: all checked before this point) is right."""
    if not red or not any(lo < 0 for lo, hi in leaves.values()):
        return None
    ids = [v.id for v in Pplain.A.variables]
    pts, feas = cfgspace.feasible_points(Pplain)
    F = pts[feas]
    cols = [ids.index(i) for i in leaves]
    want = np.array([alpha[i] for i in leaves], dtype=np.int64)
    if len(F) and (F[:, cols] == want).all(axis=1).any():
        return None
    return "D12:try_reduce_before-reduced-polyhedron-admits-non-models-negative-lower-bound"


def canon_sol(r):
    return (sorted((str(a), int(b)) for a, b in r[0].items()), None if r[1] is None else int(r[1]), int(r[2]))


def check_solve_flags(m, case, obj, Pref, red, leaves, safe, acc, Pplain):
    cols = list(Pref.A.variables)
    ids = [v.id for v in cols]
    helper = {v.id for v in cols if (not is_var(v)) and v.generated_id}
    pts, feas = cfgspace.feasible_points(Pref)
    F = pts[feas]
    try:
        if case.get("k", 0) >= 12:
            raise StopIteration
        cap0 = cfgspace.CaptureEmptyLen("tag")
        o0, _ = bind(m)
        kw0 = dict(solver=cap0, include_virtual_variables=True)
        if red:
            kw0["try_reduce_before"] = True
        res0 = list(o0.solve([dict(OBJECTIVES[1])], **kw0))
        acc.n("transitions")
        if len(cap0.calls) != 1 or len(res0) != 1 or {a: int(b) for a, b in res0[0][0].items()} != {i: 10 + j for j, i in enumerate(ids)}:
            acc.violation(None, dict(case, mode="falsy-callable", try_reduce_before=red),
                          {"what": "a solver given as a falsy callable object was not called exactly once / its vector was not reported", "calls": len(cap0.calls),
                           "results": repr(res0)[:300], "model": show(m)})
    except StopIteration:
        pass
    except BaseException as e:
        acc.violation(None, dict(case, mode="falsy-callable", try_reduce_before=red), {"what": "solve raised with a solver given as a falsy callable object", "exc": repr(e)})
    for mode in ("exact", "tag", "none"):
        for virt in (False, True):
            cap = cfgspace.Capture(mode)
            o2, _ = bind(m)
            cs = dict(case, mode=mode, virtual=virt, try_reduce_before=red)
            acc.n("traces")
            acc.n("transitions")
            given = [dict(o) for o in OBJECTIVES]
            kw = dict(solver=cap, include_virtual_variables=virt)
            if red:
                kw["try_reduce_before"] = True
            try:
                res = list(o2.solve(given, **kw))
            except BaseException as e:
                acc.violation(None, cs, {"what": "solve raised", "exc": repr(e), "model": show(m)})
                continue
            if given != OBJECTIVES:
                acc.violation(None, cs, {"what": "solve changed the caller's objective dictionaries", "after": repr(given)[:300]})
                continue
            if mode == "exact" and not virt:
                # the composition of the batch: an objective alone in its call, and the empty batch, on the same object
                try:
                    cap1 = cfgspace.Capture("exact")
                    alone = [list(o2.solve([dict(OBJECTIVES[oi_])], **dict(kw, solver=cap1))) for oi_ in (0, 2, 5)]
                    none_ = list(o2.solve([], **dict(kw, solver=cfgspace.Capture("exact"))))
                except BaseException as e:
                    acc.violation(None, cs, {"what": "solve raised on a single objective / an empty batch", "exc": repr(e), "model": show(m)})
                    continue
                acc.n("transitions", 4)
                same = all(len(a_) == 1 and canon_sol(a_[0]) == canon_sol(res[oi_]) for a_, oi_ in zip(alone, (0, 2, 5))) if len(res) == len(OBJECTIVES) else True
                if not same or none_ != [] or [np.asarray(c_[1][0]).tolist() for c_ in cap1.calls] != [np.asarray(cap.calls[0][1][oi_]).tolist() for oi_ in (0, 2, 5)]:
                    acc.violation(None, cs, {"what": "an objective alone in its call (or the empty batch) is answered differently from the same objective in the batch",
                                             "model": show(m), "alone": repr(alone)[:300], "batch": repr([res[oi_] for oi_ in (0, 2, 5)])[:300], "empty_batch": repr(none_)})
                    continue
            acc.hist("environment_answer", mode)
            if len(cap.calls) != 1:
                acc.violation(None, cs, {"what": "solver callable not called exactly once", "calls": len(cap.calls)})
                continue
            Pgot, objs = cap.calls[0]
            if not same_polyhedron(Pgot, Pref):
                acc.violation(None, cs, {"what": "solver did not receive the model's asserted polyhedron", "model": show(m),
                                         "got": np.asarray(Pgot).tolist(), "want": np.asarray(Pref).tolist()})
                continue
            if len(objs) != len(OBJECTIVES) or len(res) != len(OBJECTIVES):
                acc.violation(None, cs, {"what": "not one objective / one result per request", "n_objectives": len(objs), "n_results": len(res)})
                continue
            bad = False
            for oi, (od, ov, r) in enumerate(zip(OBJECTIVES, objs, res)):
                want = [od.get(i, 0) for i in ids]
                if np.asarray(ov).tolist() != want:
                    acc.violation(None, dict(cs, oi=oi), {"what": "objective vector entry != weight given for that column's id", "model": show(m), "columns": list(map(str, ids)),
                                                          "objective_dict": od, "got": np.asarray(ov).tolist(), "want": want})
                    bad = True
                    break
                sol = r[0]
                acc.obs(mode, virt, red, oi, sorted((str(a), int(b)) for a, b in sol.items()))
                if mode == "none":
                    if sol != {}:
                        acc.violation(None, dict(cs, oi=oi), {"what": "None solution did not become an empty result", "got": repr(sol)})
                        bad = True
                        break
                    continue
                keep = [i for i in ids if virt or i not in helper]
                if mode == "tag":
                    wantd = {i: 10 + ids.index(i) for i in keep}
                    if {a: int(b) for a, b in sol.items()} != wantd:
                        acc.violation(None, dict(cs, oi=oi), {"what": "reported dictionary does not map every column id to the value at that column "
                                                              "(minus generated helpers)", "model": show(m), "columns": list(map(str, ids)),
                                                              "got": {str(a): int(b) for a, b in sol.items()}, "want": {str(a): b for a, b in wantd.items()}})
                        bad = True
                        break
                    continue
                # exact
                if len(F) == 0:
                    if sol != {}:
                        acc.violation(None, dict(cs, oi=oi), {"what": "infeasible model but a solution was reported", "got": repr(sol)})
                        bad = True
                        break
                    continue
                if set(sol) != set(keep):
                    acc.violation(None, dict(cs, oi=oi), {"what": "reported ids differ from the (non-helper) column ids", "got": sorted(map(str, sol)), "want": sorted(map(str, keep))})
                    bad = True
                    break
                w = np.array(want, dtype=np.int64)
                best = int((F @ w).max())
                if virt:
                    x = np.array([sol[i] for i in ids], dtype=np.int64)
                    if not ref.feasible_mask(np.asarray(Pref.A), np.asarray(Pref.b), x[None, :])[0] or int(x @ w) != best:
                        acc.violation(None, dict(cs, oi=oi), {"what": "reported solution is not optimal/feasible for the requested weights", "model": show(m),
                                                              "solution": {str(a): int(b) for a, b in sol.items()}, "best": best})
                        bad = True
                        break
                if safe and all(i in sol for i in leaves):
                    alpha = {i: int(sol[i]) for i in leaves}
                    t = ref.truth(m, alpha) if m[0] == 'N' else ref.connective(m, alpha)
                    if t != 1:
                        acc.violation(classify_unsat(m, red, leaves, alpha, Pplain), dict(cs, oi=oi),
                                      {"what": "solver-safe model: reported solution does not satisfy the model", "model": show(m), "alpha": alpha,
                                       "polyhedron_handed_to_the_solver": np.asarray(Pref).tolist(), "columns": list(map(str, ids))})
                        bad = True
                        break
                if len(set((F @ w).tolist())) >= 2:
                    acc.nontriv((m, oi, red))
            if bad:
                continue


def check_select(k, tier, acc):
    from .c14 import cfgs2 as cfgs
    name, ast = cfgs(tier)[k]
    case = {"kind": "select", "tier": tier, "k": k, "cfg": name}
    clear_caches()
    try:
        cfg, _ = bind(ast)
        if cfg.errors():
            acc.n("skipped_invalid")
            return
        Pref = cfg.ge_polyhedron
        leaf_ids = sorted({o.id for o in walk(cfg).values() if type(o) == puan.variable})
    except BaseException as e:
        acc.violation(None, case, {"what": "construction raised", "exc": repr(e)})
        return
    ids = [v.id for v in Pref.A.variables]
    if len(ids) > 16:
        acc.n("skipped_too_many_columns")
        return
    acc.n("configurators")
    acc.state(ast)
    prios = cfgspace.prio_dicts()
    dpv = np.asarray(Pref.default_prio_vector)
    pts, feas = cfgspace.feasible_points(Pref)
    F = pts[feas]
    # the solver handed over as a callable OBJECT that happens to be falsy (an empty memoising container): being callable is the contract.
    # A small batch, so that a library that falls back to its own solver does not stall the run.
    # (the kind of callable is independent of the model: probed on the first 12 configurators only)
    try:
        if k >= 12:
            raise StopIteration
        cap0 = cfgspace.CaptureEmptyLen("tag")
        cfg0, _ = bind(ast)
        res0 = list(cfg0.select(*[dict(p) for p in prios[1:4]], solver=cap0))
        acc.n("transitions")
        want0 = {i: 10 + j for j, i in enumerate(ids)}
        if len(cap0.calls) != 1 or len(res0) != 3 or any({a: int(b) for a, b in r_[0].items()} != want0 for r_ in res0):
            acc.violation(None, dict(case, mode="falsy-callable"), {"what": "a solver given as a falsy callable object was not called exactly once / its vectors were not reported",
                                                                    "calls": len(cap0.calls), "results": repr(res0)[:300]})
    except StopIteration:
        pass
    except BaseException as e:
        acc.violation(None, dict(case, mode="falsy-callable"), {"what": "select raised with a solver given as a falsy callable object", "exc": repr(e)})
    for mode in ("exact", "tag", "none") + tuple(("raise", e_) for e_ in range(len(cfgspace.RAISES))):
        exc_i = 0
        if isinstance(mode, tuple):
            mode, exc_i = mode
        for only_leafs in (False, True):
            clear_caches()
            cfg2, _ = bind(ast)
            cap = cfgspace.Capture(mode, exc_i)
            cs = dict(case, mode=mode, only_leafs=only_leafs, exc=exc_i)
            acc.n("traces")
            acc.n("transitions")
            acc.hist("environment_answer", mode)
            try:
                batch = prios if mode != "raise" else prios[exc_i:exc_i + 3]      # a failing solver: three dictionaries are enough
                given = [dict(p) for p in batch]
                try:
                    res = list(cfg2.select(*given, solver=cap, only_leafs=only_leafs))
                finally:
                    if given != [dict(p) for p in batch]:
                        acc.violation(None, cs, {"what": "select changed the caller's priority dictionaries", "after": repr(given)[:300]})
                raised = None
            except pnd.InfeasibleError as e:
                raised = "InfeasibleError"
            except BaseException as e:
                raised = repr(e)
            if mode == "raise":
                if raised != "InfeasibleError":
                    acc.violation(None, cs, {"what": "solver exception did not surface as InfeasibleError from select()", "got": raised,
                                             "solver_raised": repr(cfgspace.RAISES[exc_i]())})
                continue
            if raised:
                acc.violation(None, cs, {"what": "select raised", "exc": raised})
                continue
            if len(cap.calls) != 1:
                acc.violation(None, cs, {"what": "the supplied solver callable was not called exactly once by select()", "calls": len(cap.calls),
                                         "solver_object": type(cap).__name__})
                continue
            Pgot, objs = cap.calls[0]
            if not same_polyhedron(Pgot, Pref) or len(objs) != len(prios) or len(res) != len(prios):
                acc.violation(None, cs, {"what": "solver did not receive the configurator's polyhedron / one objective per request"})
                continue
            for pi, (prio, ov, r) in enumerate(zip(prios, objs, res)):
                u = [prio.get(i, 0) for i in ids]
                want = np.asarray(pnd.integer_ndarray(np.array([[dpv.tolist(), u]], dtype=np.int64)).ndint_compress(method="shadow", axis=0))[0]
                if np.asarray(ov).tolist() != want.tolist():
                    acc.violation(None, dict(cs, pi=pi), {"what": "objective != shadow compression of [default prios; user prios aligned by id]", "prios": prio,
                                                          "columns": list(map(str, ids)), "got": np.asarray(ov).tolist(), "want": want.tolist()})
                    break
                sol = r if only_leafs else r[0]
                acc.obs(mode, only_leafs, pi, sorted((str(a), int(b) if isinstance(b, (int, np.integer)) else repr(b)) for a, b in sol.items()))
                if mode == "none" or (mode == "exact" and len(F) == 0):
                    if sol != {}:
                        acc.violation(None, dict(cs, pi=pi), {"what": "None solution did not become an empty result", "got": repr(sol)})
                        break
                    continue
                keep = [i for i in ids if (not only_leafs) or i in leaf_ids]
                if mode == "tag":
                    wantd = {i: 10 + ids.index(i) for i in keep}
                    if {a: int(b) for a, b in sol.items()} != wantd:
                        acc.violation(None, dict(cs, pi=pi), {"what": "reported dictionary does not map every (leaf) column id to its value", "columns": list(map(str, ids)),
                                                              "leafs": list(map(str, leaf_ids)), "got": {str(a): int(b) for a, b in sol.items()}})
                        break
                    continue
                if set(sol) != set(keep):
                    acc.violation(None, dict(cs, pi=pi), {"what": "reported ids differ from the expected column ids", "got": sorted(map(str, sol)), "want": sorted(map(str, keep))})
                    break
                if not only_leafs:
                    x = np.array([sol[i] for i in ids], dtype=np.int64)
                    w = want.astype(np.int64)
                    if int(x @ w) != int((F @ w).max()) or not ref.feasible_mask(np.asarray(Pref.A), np.asarray(Pref.b), x[None, :])[0]:
                        acc.violation(None, dict(cs, pi=pi), {"what": "reported solution is not optimal/feasible for the compressed priorities", "prios": prio,
                                                              "solution": {str(a): int(b) for a, b in sol.items()}})
                        break
                    if len(set((F @ w).tolist())) >= 2:
                        acc.nontriv((ast, pi))
    # the same configurator object asked twice: same ids (and order) in the dictionaries, other values
    try:
        clear_caches()
        cfg3, _ = bind(ast)
        cap1, cap2 = cfgspace.Capture("none"), cfgspace.Capture("none")
        list(cfg3.select(*[dict(p) for p in prios], solver=cap1))
        prios2 = [{i: (-v if n % 2 else v + 1) for n, (i, v) in enumerate(p.items())} for p in prios]
        list(cfg3.select(*[dict(p) for p in prios2], solver=cap2))
        acc.n("transitions", 2)
        for pi, (prio, ov) in enumerate(zip(prios2, cap2.calls[0][1])):
            u = [prio.get(i, 0) for i in ids]
            want = np.asarray(pnd.integer_ndarray(np.array([[dpv.tolist(), u]], dtype=np.int64)).ndint_compress(method="shadow", axis=0))[0]
            if np.asarray(ov).tolist() != want.tolist():
                acc.violation(None, dict(case, second_call=True, pi=pi), {"what": "second select() on the same configurator: objective != shadow compression of [default prios; user prios aligned by id]",
                                                                         "first_prios": prios[pi], "second_prios": prio, "got": np.asarray(ov).tolist(), "want": want.tolist()})
                break
    except BaseException as e:
        acc.violation(None, dict(case, second_call=True), {"what": "second select() raised", "exc": repr(e)})
    if k % 100 == 0:
        acc.sample({"configurator": name, "columns": list(map(str, ids)), "leafs": list(map(str, leaf_ids)), "prios": prios[30]})


def replay(case, acc):
    from ..runner import tuplify
    if case["kind"] == "solve":
        check_solve(tuplify(case["ast"]), case["fam"], case["k"], acc)
    else:
        check_select(case["k"], case["tier"], acc)
