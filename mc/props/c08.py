"""C08 - reduce() preserves meaning and removes every fixed variable."""
import itertools

from ..env import np, puan, pg
from .. import ref, families
from ..ast import bind, leaves_of, compounds_of, show, is_var, walk, structure, L, N

ID = "C08"
RULE = ("Mode G: states = every validated model of the families with every choice of <=F elements (leaves at any constant of their range, "
        "non-top sub-propositions at 0/1) fixed by construction bounds, plus the targets of assume(d) edges (|d|=1, constant) - i.e. "
        "non-initial states; edge reduce(), applied twice. x every interpretation of the still-free leaves. oracle: reduced.evaluate(rho) "
        "== unreduced.evaluate(rho) == reference truth with the fixed elements at their constants; reduced.flatten() has no member with "
        "constant bounds unless the result is one constant variable; reduce o reduce is a self-loop on the structural key. "
        "non-trivial = distinct state where reduce removed something and the result is not a constant")
ASSUMPTIONS = [
    "filter errors()==[]",
    "compounds without children are outside this check: the class documentation calls them invalid ('propositions list cannot be empty') although errors() accepts them, and reduce() raises TypeError on them on the unchanged tree",
    "only free leaves are assigned (assigning a fixed leaf would override it in the unreduced model: a harness-made difference)",
]
BOUNDS = {
    "quick": "ab/explicit with ALL subsets fixed; abc/explicit and at/explicit with <=1 fixed; assume-edge states from abc/explicit; diamonds with <=1 fixed",
    "thorough": "abc/explicit, at/explicit with <=2 fixed; abt, abc/generated (leaves only), d3/abc, diamonds <=2; assume-edges from abt",
}
QUICK = [("ab/explicit", 9, "fix"), ("abc/explicit", 1, "fix"), ("at/explicit", 1, "fix"), ("diamond/explicit", 1, "fix"), ("abc/explicit", 1, "assume"), ("mix3/abt/explicit", 1, "fix"), ("wide/1", 1, "assume"),
         ("alt/mix3+abt+explicit", 1, "fix"), ("alt/mix3b+abt+explicit", 1, "fix")]
THOROUGH = [("ab/explicit", 9, "fix"), ("abc/explicit", 2, "fix"), ("at/explicit", 2, "fix"), ("diamond/explicit", 2, "fix"),
            ("abt/explicit", 1, "fix"), ("abc/generated", 1, "fix"), ("d3/abc/explicit", 1, "fix"), ("abc/explicit", 1, "assume"),
            ("abt/explicit", 1, "assume"), ("diamond/explicit", 1, "assume")]


def shards(tier):
    out = []
    for fam, F, mode in (QUICK if tier == "quick" else THOROUGH):
        out += [(fam, lo, hi, F, mode) for (fam, lo, hi) in families.shards_for([fam], 150 if F > 1 else 400)]
    return out


def run_shard(desc, acc, tier):
    fam, lo, hi, F, mode = desc
    for k, m in enumerate(families.family(fam)[lo:hi], start=lo):
        if mode == "fix":
            check_fix(m, acc, fam, k, F)
        else:
            check_assume(m, acc, fam, k)


def substitute(ast, sub):
    """Replace sub-ASTs according to dict sub (old -> new), bottom-up."""
    if ast[0] == 'L':
        return sub.get(ast, ast)
    _, i, s, v, ch, fx = ast
    new = N(i, s, v, [substitute(c, sub) for c in ch], fx)
    # the key in `sub` is the ORIGINAL node
    if ast in sub:
        return N(i, s, v, new[4], sub[ast])
    return new


def variants(m, F):
    """All ASTs obtained by fixing <=F elements.  Yields (index, ast, n_fixed)."""
    leaves = leaves_of(m)
    elems = []
    for i, (lo, hi) in leaves.items():
        elems.append((L(i, lo, hi), [L(i, c, c) for c in range(lo, hi + 1)]))
    explicit = all(c[1] is not None for c in compounds_of(m))
    if explicit:
        for c in compounds_of(m)[1:]:
            elems.append((c, [(0, 0), (1, 1)]))
    idx = 0
    for r in range(0, min(F, len(elems)) + 1):
        for sel in itertools.combinations(range(len(elems)), r):
            for choice in itertools.product(*[elems[j][1] for j in sel]):
                sub = {elems[j][0]: c for j, c in zip(sel, choice)}
                yield idx, substitute(m, sub), r
                idx += 1


def check_fix(m, acc, fam, k, F, only=None):
    for idx, v, nfix in variants(m, F):
        if only is not None and idx != only:
            continue
        case = {"fam": fam, "k": k, "ast": m, "F": F, "mode": "fix", "variant": idx}
        check_state(v, None, acc, case, nfix)


def check_assume(m, acc, fam, k, only=None):
    leaves = leaves_of(m)
    comps = compounds_of(m)
    idx = -1
    for i, (lo, hi) in leaves.items():
        for c in ref.domain(lo, hi, 4):
            idx += 1
            if only is None or idx == only:
                check_state(m, ("L", i, c), acc, {"fam": fam, "k": k, "ast": m, "F": 1, "mode": "assume", "variant": idx}, 1)
    for cn in comps[1:]:
        for c in (0, 1):
            idx += 1
            if only is None or idx == only:
                check_state(m, ("N", cn, c), acc, {"fam": fam, "k": k, "ast": m, "F": 1, "mode": "assume", "variant": idx}, 1)


def check_state(v, assumption, acc, case, nfix):
    try:
        obj, b = bind(v)
        if obj.errors():
            acc.n("skipped_invalid")
            return
    except BaseException as e:
        acc.violation(None, case, {"what": "construction / errors raised", "exc": repr(e), "model": show(v)})
        return
    leaves = dict(leaves_of(v))
    overrides = {}
    d = None
    if assumption is not None:
        kind, key, c = assumption
        if kind == "L":
            d = {key: c}
            leaves[key] = (c, c)
        else:
            d = {b.memo[key].id: c}
            overrides[key] = c

    def state():
        o, _ = bind(v)
        return o.assume(dict(d)) if d is not None else o

    try:
        unreduced = state()
        red = state().reduce()
        red2 = red.reduce() if not is_var(red) else red
    except BaseException as e:
        acc.violation(None, case, {"what": "assume/reduce raised", "exc": repr(e), "model": show(v), "assumption": repr(d)})
        return
    try:
        one = state()
        r_a = structure(one.reduce())
        r_b = structure(one.reduce())
    except BaseException as e:
        acc.violation(None, case, {"what": "reduce twice on one object raised", "exc": repr(e), "model": show(v)})
        return
    if r_a != r_b or r_a != structure(red):
        acc.violation(None, case, {"what": "reduce() called twice on one object (or on an identical fresh object) gives different results", "model": show(v), "assumption": repr(d)})
        return
    acc.n("states_checked")
    acc.n("transitions", 2 + (1 if d else 0))
    acc.state((v, assumption))
    free = {i: bd for i, bd in leaves.items() if bd[0] != bd[1]}
    key1 = structure(red)
    acc.obs(key1)
    # no constant member left
    if is_var(red):
        members = []
        acc.hist("reduced_to", "constant variable" if red.bounds.constant is not None else "variable")
    else:
        members = list(walk(red).values())
        acc.hist("reduced_to", "proposition")
    consts = [str(o.id) for o in members if o.bounds.constant is not None]
    if consts:
        acc.violation(None, case, {"what": "reduced model still contains members with constant bounds", "model": show(v), "assumption": repr(d),
                                   "constant_members": consts, "reduced": red.to_text().split("\n")})
        return
    if structure(red2) != key1:
        acc.violation(None, case, {"what": "reduce(reduce(x)) differs from reduce(x)", "model": show(v), "assumption": repr(d),
                                   "reduce": repr(key1), "reduce_reduce": repr(structure(red2))})
        return
    removed = is_var(red) or len(walk(red)) < len(walk(unreduced) if not is_var(unreduced) else [unreduced])
    for rho in ref.assignments_dom(free, 4):
        alpha = {i: bd[0] for i, bd in leaves.items() if bd[0] == bd[1]}
        alpha.update(rho)
        want = ref.truth(v, alpha, overrides)
        acc.n("traces")
        acc.n("transitions", 2)
        try:
            g_red = state().reduce().evaluate(dict(rho)).as_tuple()
            g_unr = state().evaluate(dict(rho)).as_tuple()
        except BaseException as e:
            acc.violation(None, case, {"what": "evaluate raised", "exc": repr(e), "model": show(v), "assumption": repr(d), "rho": rho})
            return
        g_red = (int(g_red[0]), int(g_red[1]))
        g_unr = (int(g_unr[0]), int(g_unr[1]))
        acc.obs(g_red, g_unr)
        if g_red != g_unr or g_red != (want, want):
            acc.violation(None, case, {"what": "reduced and unreduced model (or the reference) disagree", "model": show(v), "assumption": repr(d),
                                       "rho": rho, "reduced": g_red, "unreduced": g_unr, "reference": want,
                                       "reduced_text": red.to_text().split("\n") if not is_var(red) else repr(red)})
            return
    if removed and not is_var(red):
        acc.nontriv((v, assumption))
    if acc.counts["states_checked"] % 4000 == 1:
        acc.sample({"model": show(v), "assumption": repr(d), "reduced": red.to_text().split("\n") if not is_var(red) else repr(red)})


def replay(case, acc):
    from ..runner import tuplify
    m = tuplify(case["ast"])
    if case["mode"] == "fix":
        check_fix(m, acc, case["fam"], case["k"], case["F"], only=case["variant"])
    else:
        check_assume(m, acc, case["fam"], case["k"], only=case["variant"])
