"""C18 - extending a configurator equals building it with the extra rule."""
import itertools

from ..env import np, puan, pg, cc, pnd, clear_caches
from .. import ref, cfgspace
from ..ast import bind, show, walk, is_var, structure, C, L
from ..fingerprint import fingerprint, diff, memo_state, memo_changed

ID = "C18"
RULE = ("Mode H: 7 base configurators, each built with an explicit id and (one step shallower) without an id (no rule; one defaulted rule; two rules; a top-level boolean item plus a rule; a top-level integer item plus a rule; one rule listed twice; one item id with two bounds) x ALL sequences of length <=3 "
        "(quick) / <=4 (thorough) over a menu of 9 rules (plain, defaulted, implication rules, generated and explicit ids, one whose id "
        "collides with an existing rule id, two whose id equals a top-level item - one of them an item with other bounds than (0,1)). Every prefix is a state; transition = add(rule) on the "
        "real object. oracle: after every accepted addition the configurator has the same structural key, default priorities, polyhedron "
        "and exact-solver selections (priority alphabet) as StingyConfigurator(*old_rules, *added, id=base.id) built from fresh objects; the "
        "id is kept; the deep fingerprint of the base and of every intermediate configurator is unchanged; a rule whose id names an existing "
        "top-level proposition is refused at whatever position, leaving the configurator unchanged. non-trivial = distinct sequence with at "
        "least one accepted addition")
ASSUMPTIONS = ["caches are cleared before each comparison (C09 owns cache state)"]
BOUNDS = {"quick": "7 bases x sequences of length <=3 over 9 rules (<=2 from the id-less base)", "thorough": "7 bases x sequences of length <=4 (<=3 from the id-less base)"}


def bases():
    return [
        ("B0:empty", []),
        ("B1:ccAny(a,b|a)", [cfgspace.ccAny("ab", "a", "R1")]),
        ("B2:ccXor(a,b,c|b)&c->x", [cfgspace.ccXor("abc", "b", "R1"), C('Imply', "R2", [L("c"), L("x")])]),
        ("B3:item a & AtMost1(a,b)", [L("a"), C('AtMost', "R1", [L("a"), L("b")], 1)]),
        ("B4:integer item n[0,5] & Any(a,b)", [L("n", 0, 5), C('Any', "R1", [L("a"), L("b")])]),
        # entries that are equal (and hash alike) although they are two entries: one rule listed twice, one id with two bounds
        ("B5:R1, item c, R1 again", [C('AtMost', "R1", [L("a"), L("b")], 1), L("c"), C('AtMost', "R1", [L("a"), L("b")], 1)]),
        ("B6:items n[0,5] and n[1,4] & Any(a,b)", [L("n", 0, 5), L("n", 1, 4), C('Any', "R1", [L("a"), L("b")])]),
    ]


def menu():
    return [
        ("ccXor(x,y|x)#X1", cfgspace.ccXor("xy", "x", "X1")),
        ("Any(a,b)", C('Any', None, [L("a"), L("b")])),
        ("a->x#I1", C('Imply', "I1", [L("a"), L("x")])),
        ("ccAny(a,b,c|c)", cfgspace.ccAny("abc", "c")),
        ("AtMost1(x,y,z)#M1", C('AtMost', "M1", [L("x"), L("y"), L("z")], 1)),
        ("All(a,b)->ccXor(x,y|y)", C('Imply', None, [C('All', None, [L("a"), L("b")]), cfgspace.ccXor("xy", "y")])),
        ("Any(b,c)#R1(collides)", C('Any', "R1", [L("b"), L("c")])),
        ("All(x,y)#a(item id)", C('All', "a", [L("x"), L("y")])),
        ("All(x,z)#n(integer item id)", C('All', "n", [L("x"), L("z")])),
    ]


def shards(tier):
    depth = 3 if tier == "quick" else 4
    out = []
    for bi in range(len(bases())):
        for first in range(len(menu())):
            out.append((bi, first, depth, "cfg"))
            # the same histories from a base built WITHOUT an id (it carries a generated one, which add() must keep as well)
            out.append((bi, first, depth - 1, None))
    return out


def run_shard(desc, acc, tier):
    bi, first, depth, cid = desc
    n = len(menu())
    for ln in range(1, depth + 1):
        for rest in itertools.product(range(n), repeat=ln - 1):
            check_seq(bi, (first,) + rest, acc, cid)


def observe(cfg):
    """Everything a user can see of a configurator. A query that raises is observed as its exception type (a configurator holding one
    rule twice, or one id with two bounds, may refuse some queries - then the extended and the directly built one must refuse alike)."""
    out = {"id": cfg.id, "generated_id": cfg.generated_id, "class": type(cfg).__name__}

    def q(name, fn):
        clear_caches()
        try:
            out[name] = fn()
        except Exception as e:
            out[name] = "RAISES " + type(e).__name__

    def poly():
        P = cfg.ge_polyhedron
        return (np.asarray(P).tolist(), [(type(v).__name__, repr(v.id), v.bounds.as_tuple()) for v in P.variables], np.asarray(P.default_prio_vector).tolist())

    def sel():
        P = cfg.ge_polyhedron
        if len(P.A.variables) > 16:
            return None
        prios = cfgspace.prio_dicts()[::4]
        return [sorted((repr(k), int(v)) for k, v in s_[0].items()) for s_ in cfg.select(*[dict(p) for p in prios], solver=cfgspace.Capture("exact"))]
    q("structure", lambda: structure(cfg))
    q("children", lambda: [repr(p.id) for p in cfg.propositions])
    q("value", lambda: (int(cfg.sign), int(cfg.value)))
    q("poly", poly)
    q("default_prios", lambda: sorted((repr(k), v) for k, v in cfg.default_prios.items()))
    q("select", sel)
    q("leafs", lambda: [repr(v) for v in cfg.leafs()])
    q("errors", lambda: [str(e) for e in cfg.errors()])
    q("json", lambda: repr(cfg.to_json()))
    clear_caches()
    return out


def check_seq(bi, seq, acc, cid="cfg"):
    bname, brules = bases()[bi]
    mn = menu()
    case = {"base": bi, "seq": list(seq), "cid": cid}
    desc = {"base": bname, "sequence": [mn[j][0] for j in seq], "configurator_id": cid}
    acc.n("traces")
    acc.state((bi, seq, cid))
    try:
        base = cc.StingyConfigurator(*[bind(r)[0] for r in brules], id=cid)
    except BaseException as e:
        acc.violation(None, case, dict(desc, what="base construction raised", exc=repr(e)))
        return
    cur = base
    base.leafs()            # fill the per-instance memos of the base before anything is added: they must stay as they are
    base.ge_polyhedron
    chain = [(base, fingerprint(base))]
    memos = [memo_state({"c": base})]
    accepted = []
    for pos, j in enumerate(seq):
        rule = bind(mn[j][1])[0]
        top_ids = [p.id for p in cur.propositions]
        must_refuse = rule.id in top_ids
        acc.n("transitions")
        f_rule = fingerprint(rule)
        try:
            nxt = cur.add(rule)
            refused = False
        except Exception as e:
            nxt, refused = None, True
        except BaseException as e:
            acc.violation(None, case, dict(desc, what="add raised a non-Exception", exc=repr(e), position=pos))
            return
        acc.obs(pos, j, refused)
        acc.hist("addition", "refused" if refused else "accepted")
        if must_refuse and not refused:
            acc.violation(None, case, dict(desc, what="a rule whose id names an existing top-level proposition was not refused", position=pos,
                                           rule_id=repr(rule.id), top_level_ids=list(map(repr, top_ids))))
            return
        if refused and not must_refuse:
            acc.violation(None, case, dict(desc, what="a rule with a fresh id was refused", position=pos, rule_id=repr(rule.id),
                                           top_level_ids=list(map(repr, top_ids))))
            return
        if fingerprint(rule) != f_rule:
            acc.violation(None, case, dict(desc, what="add() changed the rule object it was given", position=pos, diff=diff(f_rule, fingerprint(rule))))
            return
        # nothing reachable before the call may have changed
        for n_, (c_, f_) in enumerate(chain):
            stale = memo_changed(memos[n_], memo_state({"c": c_}))
            if stale:
                acc.violation(None, case, dict(desc, what="add() changed a result cached on an earlier configurator (leafs / polyhedron memo)", position=pos,
                                               changed="base" if n_ == 0 else f"intermediate {n_}", memo=stale[:3]))
                return
            f_now = fingerprint(c_)
            if f_now != f_:
                acc.violation(None, case, dict(desc, what="add() changed an earlier configurator (the original is not left unchanged)", position=pos,
                                               changed="base" if n_ == 0 else f"intermediate {n_}", diff=diff(f_, f_now)))
                return
        if refused:
            continue
        accepted.append(j)
        if nxt is cur or type(nxt) is not cc.StingyConfigurator or nxt.id != base.id or (cid is not None and nxt.generated_id != base.generated_id):
            acc.violation(None, case, dict(desc, what="add() did not return a new configurator with the same id", position=pos, got_id=repr(nxt.id)))
            return
        try:
            direct = cc.StingyConfigurator(*[bind(r)[0] for r in brules], *[bind(mn[a][1])[0] for a in accepted], id=base.id)
            o_add = observe(nxt)
            o_dir = observe(direct)
        except BaseException as e:
            acc.violation(None, case, dict(desc, what="observation raised", exc=repr(e), position=pos))
            return
        acc.n("transitions", 8)
        for key in o_add:
            if o_add[key] != o_dir[key]:
                acc.violation(None, case, dict(desc, what=f"extended configurator differs from the directly built one in: {key}", position=pos,
                                               extended=repr(o_add[key])[:700], direct=repr(o_dir[key])[:700]))
                return
        f_n = fingerprint(nxt)
        if fingerprint(nxt) != f_n:
            acc.violation(None, case, dict(desc, what="observing the configurator changed it", position=pos))
            return
        chain.append((nxt, f_n))
        memos.append(memo_state({"c": nxt}))
        cur = nxt
    if accepted:
        acc.nontriv((bi, seq, cid))
    if len(seq) == 2 and seq[0] == seq[1] == 0:
        acc.sample(dict(desc, accepted=[mn[a][0] for a in accepted]))


def replay(case, acc):
    check_seq(case["base"], tuple(case["seq"]), acc, case.get("cid", "cfg"))
