"""C10 - validation accepts exactly the well-defined models."""
import itertools

from ..env import np, puan, pg
from ..ast import is_var, walk, record

ID = "C10"
RULE = ("Mode G over an adversarial id/bounds grammar, enumerated completely: top node with 1..2 (3 in a sub-family) children, each a leaf "
        "(id in {x,y,a,b,ab,A(=top),B,C}, bounds from a menu with equal-sum pairs (0,3)/(1,2), the hash(-1)==hash(-2) pair (-1,5)/(-2,5) and "
        "plain differences) or a compound (id B/C/generated, sign/value in {(+,1),(+,2),(-,-1),(-,-2),(-,1),(+,-1)}, 1..2 children incl. a leaf with a box symmetric around 0, optionally nested), "
        "plus a family where one id is a compound with a pre-fixed / plain own variable AND a leaf or another compound with other bounds, plus a family of definitions of one id whose child-id lists look alike in joined text (ids containing ',' / ', ' / quotes / blanks), plus a family of generated-id coincidences under DIFFERENT parents (+(ab,c) vs +(a,bc) ...), plus wrapper families that reuse the same object / an equal copy / a different definition of one id under two parents, self "
        "references and 2-/3-cycles through ids. After the first verdict one of two equal copies of a compound is EDITED IN PLACE and the model validated again. oracle: soundness errors()==[] => reference validator (own traversal, compares ids and "
        "(lo,hi) tuples and (sign,value,children) directly, never hashes); completeness on models whose ids are pairwise distinct or whose "
        "equal ids carry identical records. non-trivial = distinct model that the reference rejects")
ASSUMPTIONS = [
    "a leaf that references a compound by id with equal bounds is well-defined (pinned test test_bind_relations_to_compound_id) and is outside the completeness families",
    "two compounds with one id and equal (sign,value,child ids) are one definition regardless of their Python class",
]
BOUNDS = {
    "quick": "all 1- and 2-child tops over 13 leaf specs + 660 compound specs + nested/cycle specs; wrapper family 78x78x2x3; triples over a reduced menu",
    "thorough": "quick + 3-child tops over a 60-item menu + larger wrapper family",
}

LM = [("x", (0, 1)), ("x", (0, 3)), ("x", (1, 2)), ("x", (-1, 5)), ("x", (-2, 5)), ("y", (0, 1)), ("B", (0, 1)), ("B", (0, 3)),
      ("A", (0, 1)), ("a", (0, 1)), ("b", (0, 1)), ("ab", (0, 1)), ("C", (0, 1)), ("t", (-3, 3)), ("t", (-2, 2))]
SL = [("x", (0, 1)), ("x", (0, 3)), ("x", (1, 2)), ("y", (0, 1)), ("a", (0, 1)), ("b", (0, 1)), ("ab", (0, 1)), ("A", (0, 1)),
      ("C", (0, 1)), ("B", (0, 1)), ("t", (-3, 3))]
# sign/value pairs: plain ones, the hash(-1)==hash(-2) pair, and pairs that differ ONLY in sign (equal value) - with a child box that is
# symmetric around 0 these have equal equation bounds, i.e. are equal under any comparison that ignores the sign
SV = [(1, 1), (1, 2), (-1, -1), (-1, -2), (-1, 1), (1, -1)]


def leaf_spec(i, bd):
    return ("leaf", i, bd)


def comp_spec(i, s, v, children, vb=None):
    """vb: bounds of the compound's OWN variable when it is given as a puan.variable (pre-fixed (1,1) / (0,0), or plain (0,1))."""
    return ("comp", i, s, v, tuple(children)) if vb is None else ("comp", i, s, v, tuple(children), tuple(vb))


def inner_menu():
    out = []
    childsets = [(c,) for c in SL] + list(itertools.combinations(SL, 2))
    for i in ("B", "C", None):
        for (s, v) in SV:
            for cs in childsets:
                out.append(comp_spec(i, s, v, [leaf_spec(*c) for c in cs]))
    return out


def nested_menu():
    out = []
    for inner_leaf in (("x", (0, 1)), ("A", (0, 1)), ("B", (0, 1)), ("C", (0, 1))):
        for ci in ("C", None):
            c = comp_spec(ci, 1, 1, [leaf_spec(*inner_leaf)])
            for extra in (None, ("x", (0, 1)), ("x", (0, 3)), ("C", (0, 1))):
                for bi in ("B", None):
                    ch = [c] + ([leaf_spec(*extra)] if extra else [])
                    out.append(comp_spec(bi, 1, 1, ch))
    return out


_MENU = None


def menu():
    global _MENU
    if _MENU is None:
        _MENU = [leaf_spec(*l) for l in LM] + inner_menu() + nested_menu()
    return _MENU


def small_b_menu(n_sets=12):
    childsets = ([(c,) for c in SL[:6]] + [(SL[10],)] + list(itertools.combinations(SL[:4], 2)))[:n_sets + 1]
    return [comp_spec("B", s, v, [leaf_spec(*c) for c in cs]) for (s, v) in SV for cs in childsets]


GEN_SETS = [("a", "b"), ("ab",), ("ab", "c"), ("a", "bc"), ("abc",), ("a", "b", "c"), ("a1",), ("a",)]


def gen_menu():
    """Compounds WITHOUT explicit id whose generated ids coincide (child ids, value and sign are concatenated without separator):
    +(a,b)>=1 / +(ab)>=1, +(ab,c) / +(a,bc) / +(abc) / +(a,b,c), +(a1)>=1 / +(a)>=11."""
    out = []
    for (s, v) in SV + [(1, 11)]:
        for cs in GEN_SETS:
            out.append(comp_spec(None, s, v, [leaf_spec(c, (0, 1)) for c in cs]))
    return out


SEP_SETS = [("a", "b"), ("a,b",), ("a", "b", "c"), ("a,b", "c"), ("a", "b,c"), ("a,b,c",), ("a', 'b",), ("a b",), ("a, b",), ("a",), ("a,",), (",a",)]


def sep_menu():
    """Compounds with ONE explicit id whose child-id lists differ but look alike in any text that joins ids with ',', ', ', "', '" or ' '
    (repr / to_text / to_short style renderings): +(a,b) vs +('a,b'), +(a,b,c) vs +('a,b',c) vs +(a,'b,c') ..."""
    return [comp_spec("B", s_, v_, [leaf_spec(c, (0, 1)) for c in cs]) for (s_, v_) in ((1, 1), (-1, -1)) for cs in SEP_SETS]


def fixb_menu():
    """One id B as a compound whose own variable is given with bounds (pre-fixed to a constant or plain), to be met under another parent
    by a LEAF called B with the same / other bounds or by another compound B with other variable bounds."""
    out = []
    for vb in ((1, 1), (0, 0), (0, 1)):
        for cs in ((("x", (0, 1)),), (("a", (0, 1)), ("b", (0, 1)))):
            for (s_, v_) in ((1, 1), (-1, -1)):
                out.append(comp_spec("B", s_, v_, [leaf_spec(*c) for c in cs], vb))
    return out


def fixb_partners():
    return [leaf_spec("B", bd) for bd in ((0, 1), (1, 1), (0, 0), (0, 3))] + fixb_menu()


def build(spec, memo):
    """memo: dict spec->object when sharing identical specs as ONE object, or None for fresh copies."""
    if memo is not None and spec in memo:
        return memo[spec]
    if spec[0] == "leaf":
        o = puan.variable(spec[1], spec[2])
    else:
        i, s, v, ch = spec[1:5]
        var = i if len(spec) == 5 else puan.variable(i, spec[5])
        o = pg.AtLeast(v, [build(c, memo) for c in ch], variable=var, sign=s)
    if memo is not None:
        memo[spec] = o
    return o


# ------------------------------------------------------------------ reference validator
def well_defined(top):
    nodes = list(walk(top).values())
    reasons = []
    by_id = {}
    edges = {}
    for o in nodes:
        if is_var(o):
            by_id.setdefault(o.id, []).append(("v", o.bounds.as_tuple(), None))
        else:
            kids = [p.id for p in o.propositions]
            if len(set(kids)) != len(kids):
                reasons.append("duplicate child")
            by_id.setdefault(o.id, []).append(("c", o.bounds.as_tuple(), (int(o.sign), int(o.value), tuple(kids))))
            edges.setdefault(o.id, set()).update(kids)
    for i, defs in by_id.items():
        if len({d[1] for d in defs}) > 1:
            reasons.append("two bounds for one id")
        if len({d[2] for d in defs if d[0] == "c"}) > 1:
            reasons.append("two compound definitions for one id")
    # cycle detection on the id graph
    color = {}

    def dfs(u):
        color[u] = 1
        for w in edges.get(u, ()):
            if color.get(w) == 1:
                return True
            if color.get(w) is None and dfs(w):
                return True
        color[u] = 2
        return False
    for u in list(edges):
        if color.get(u) is None and dfs(u):
            reasons.append("cycle")
            break
    identical = all(len({record(o) for o in nodes if o.id == i}) == 1 for i in by_id)
    return sorted(set(reasons)), identical


def shards(tier):
    n = len(menu())
    out = [("single", 0, n)]
    # pairs: shard by first index
    step = 6
    out += [("pairs", lo, min(n, lo + step)) for lo in range(0, n, step)]
    nb = len(small_b_menu())
    out += [("wrap", lo, min(nb, lo + 8)) for lo in range(0, nb, 8)]
    ng = len(gen_menu())
    out += [("wrapg", lo, min(ng, lo + 6)) for lo in range(0, ng, 6)]
    out += [("wraps", 0, len(sep_menu()))]
    out += [("wrapf", 0, len(fixb_menu()))]
    out += [("triples", lo, min(len(triple_menu(tier)), lo + 2)) for lo in range(0, len(triple_menu(tier)), 2)]
    return out


def triple_menu(tier):
    m = menu()
    leafs = [s for s in m if s[0] == "leaf"]
    comps = [s for s in inner_menu() if s[3] in (1, -1) and len(s[4]) == 1][: (60 if tier == "quick" else 120)]
    return leafs + comps + nested_menu()[:8]


def run_shard(desc, acc, tier):
    kind, lo, hi = desc
    m = menu()
    if kind == "single":
        for i in range(lo, hi):
            for top in ((1, 1), (-1, 0)):
                check((m[i],), top, True, acc, {"kind": kind, "i": [i], "top": top, "share": True})
    elif kind == "pairs":
        for i in range(lo, hi):
            for j in range(i + 1, len(m)):
                check((m[i], m[j]), (1, 1), True, acc, {"kind": kind, "i": [i, j], "top": (1, 1), "share": True})
            # the same spec twice as siblings (duplicate child id): shared object and equal copy
            for share in (True, False):
                check((m[i], m[i]), (1, 1), share, acc, {"kind": kind, "i": [i, i], "top": (1, 1), "share": share})
    elif kind == "wrap":
        sb = small_b_menu()
        for i in range(lo, hi):
            for j in range(len(sb)):
                for share in (True, False):
                    for extra in (None, ("x", (0, 1)), ("x", (0, 3))):
                        D = comp_spec("D", 1, 1, [sb[j]] + ([leaf_spec(*extra)] if extra else []))
                        check((sb[i], D), (1, 2), share, acc, {"kind": kind, "i": [i, j], "extra": extra, "share": share})
    elif kind == "wrapg":
        gm = gen_menu()
        for i in range(lo, hi):
            for j in range(len(gm)):
                for share in (True, False):
                    for extra in (None, ("x", (0, 1))):
                        D = comp_spec("D", 1, 1, [gm[j]] + ([leaf_spec(*extra)] if extra else []))
                        E = comp_spec("E", 1, 1, [gm[i], leaf_spec("y", (0, 1))])
                        check((E, D), (1, 2), share, acc, {"kind": kind, "i": [i, j], "extra": extra, "share": share})
    elif kind == "wrapf":
        fm, fp = fixb_menu(), fixb_partners()
        for i in range(lo, hi):
            for j in range(len(fp)):
                for share in (True, False):
                    for top in ((1, 2), (1, 1)):
                        D = comp_spec("D", 1, 1, [fp[j], leaf_spec("c", (0, 1))])
                        check((fm[i], D), top, share, acc, {"kind": kind, "i": [i, j], "share": share, "top": top})
    elif kind == "wraps":
        sm = sep_menu()
        for i in range(lo, hi):
            for j in range(len(sm)):
                for share in (True, False):
                    D = comp_spec("D", 1, 1, [sm[j]])
                    check((sm[i], D), (1, 2), share, acc, {"kind": kind, "i": [i, j], "share": share})
    elif kind == "triples":
        tm = triple_menu(tier)
        for i in range(lo, hi):
            for j in range(i + 1, len(tm)):
                for l in range(j + 1, len(tm)):
                    check((tm[i], tm[j], tm[l]), (1, 2), True, acc, {"kind": kind, "i": [i, j, l], "tier": tier, "share": True})


def check(children, top, share, acc, case):
    memo = {} if share else None
    try:
        kids = [build(c, memo) for c in children]
        obj = pg.AtLeast(top[1], kids, variable="A", sign=top[0])
        errs = obj.errors()
    except BaseException as e:
        acc.violation(None, case, {"what": "construction / errors() raised", "exc": repr(e), "children": children})
        return
    acc.n("traces")
    acc.n("transitions")
    reasons, identical = well_defined(obj)
    acc.state((children, top, share))
    acc.obs([str(e) for e in errs])
    accepted = (errs == [])
    acc.hist("errors()_accepts / reference_accepts", (accepted, not reasons))
    if reasons:
        acc.nontriv((children, top, share))
    if accepted and reasons:
        acc.hist("unsound_acceptance_reasons", "+".join(reasons))
        acc.violation(classify(reasons, obj), case, {"what": "errors()==[] but the model is not well-defined", "reasons": reasons,
                                                     "model": describe(obj)})
        return
    if not accepted and not reasons and identical:
        acc.violation(None, case, {"what": "well-defined model (distinct ids or identical shared sub-propositions) rejected",
                                   "errors": [str(e) for e in errs], "model": describe(obj)})
        return
    if not accepted and not reasons and not identical:
        acc.n("rejected_leaf_referencing_compound_or_class_variant(not claimed)")
    if acc.counts["traces"] % 20000 == 1:
        acc.sample({"model": describe(obj), "errors": [str(e) for e in errs], "reference_reasons": reasons})
    if accepted and not share and case.get("kind") in ("wrap", "wraps", "wrapf", "pairs"):
        # history: a model that was validated is EDITED IN PLACE (one of two equal copies of a compound gets another child of the same
        # bounds) and validated again: the verdict must be about the model as it is now, not about what was seen at the first call
        twins = {}
        for o in walk(obj).values():
            if not is_var(o) and len(o.propositions) >= 1 and is_var(o.propositions[-1]):
                twins.setdefault(o.id, []).append(o)
        pair = next((v for v in twins.values() if len(v) >= 2), None)
        if pair is not None:
            victim = pair[1]
            old = victim.propositions[-1]
            try:
                victim.propositions[-1] = puan.variable("zq", old.bounds.as_tuple())
                errs2 = obj.errors()
            except BaseException as e:
                acc.violation(None, dict(case, edited=True), {"what": "errors() raised after an in-place edit", "exc": repr(e)})
                return
            acc.n("transitions")
            reasons2, _ = well_defined(obj)
            acc.hist("after_in_place_edit: errors()_accepts / reference_accepts", (errs2 == [], not reasons2))
            if errs2 == [] and reasons2:
                acc.violation(None, dict(case, edited=True), {"what": "errors()==[] after an in-place edit made the model ill-defined (the verdict of the first call was kept)",
                                                              "reasons": reasons2, "model": describe(obj)})


def describe(obj):
    return sorted({repr(record(o)) for o in walk(obj).values()})


def classify(reasons, obj):
    return None


def replay(case, acc):
    kind = case["kind"]
    m = menu()
    share = case["share"]
    if kind in ("single", "pairs"):
        check(tuple(m[i] for i in case["i"]), tuple(case["top"]), share, acc, case)
    elif kind == "wrapg":
        gm = gen_menu()
        extra = case["extra"]
        if extra:
            extra = (extra[0], tuple(extra[1]))
        D = comp_spec("D", 1, 1, [gm[case["i"][1]]] + ([leaf_spec(*extra)] if extra else []))
        E = comp_spec("E", 1, 1, [gm[case["i"][0]], leaf_spec("y", (0, 1))])
        check((E, D), (1, 2), share, acc, case)
    elif kind == "wrapf":
        fm, fp = fixb_menu(), fixb_partners()
        D = comp_spec("D", 1, 1, [fp[case["i"][1]], leaf_spec("c", (0, 1))])
        check((fm[case["i"][0]], D), tuple(case["top"]), share, acc, case)
    elif kind == "wraps":
        sm = sep_menu()
        check((sm[case["i"][0]], comp_spec("D", 1, 1, [sm[case["i"][1]]])), (1, 2), share, acc, case)
    elif kind == "wrap":
        sb = small_b_menu()
        extra = case["extra"]
        if extra:
            extra = (extra[0], tuple(extra[1]))
        D = comp_spec("D", 1, 1, [sb[case["i"][1]]] + ([leaf_spec(*extra)] if extra else []))
        check((sb[case["i"][0]], D), (1, 2), share, acc, case)
    else:
        tm = triple_menu(case["tier"])
        check(tuple(tm[i] for i in case["i"]), (1, 2), share, acc, case)
