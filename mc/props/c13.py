"""C13 - priority compression yields strictly dominating weights."""
import itertools

from ..env import np, puan, pnd

ID = "C13"
RULE = ("Mode M: EVERY integer array of the stated shapes/alphabets: 1-D (axis=None) of length 1..5 over {-3..3}; 2-D 2x2, 2x3, 3x2 over "
        "{-2..2} on both axes and flattened (axis=None); batched 3-D 2x2x2 over {-1,0,1,2} (axis=0); plus a fixed family of 150 'deep' arrays (incl. many tied levels: weights like 3^k, 5^k above 2^53) with up to 62 distinct priority levels (weights up to ~2^61, "
        "several orders and sign patterns, ties, zeros, tall diagonal matrices) - x the seven methods. oracle: for "
        "'shadow' the level of a column is (row of its last non-zero entry, magnitude); w=0 <=> all-zero, sign kept, equal levels => equal "
        "|w|, lower level => smaller |w|, and dominance |w_j| > sum of |w_i| over all strictly lower levels (exact Python integers); "
        "'prio' = signed dense rank 1..K of the levels; 'rank' = dense and strictly monotone in the signed prio; first/last/min/max = direct "
        "definitions; 3-D batch result[i] == result of slice i. non-trivial = distinct array with >=2 distinct non-zero levels")
ASSUMPTIONS = [
    "weights fit in 63 bits at these sizes (stated precondition)",
    "'first'/'last' on 1-D input with axis=0 are not claimed (behaviour not defined by the statement); on 3-D input they are batched like shadow/prio/rank (block by block along axis 0 of each block), which is what the unchanged library does on every array of the space",
    "3-D 'min'/'max' follow numpy axis semantics, 3-D 'shadow'/'prio'/'rank' are batched (as _vectors_from_prios relies on)",
]
BOUNDS = {"quick": "as in rule", "thorough": "quick + 1-D length 6 over {-2..2}, 2-D 3x3 over {-1,0,1,2} (axis 0,1), 2x4 over {-2..2}, 3-D 2x2x3 over {-1,0,1}"}
METHODS = ("shadow", "prio", "rank", "first", "last", "min", "max")


def spaces(tier):
    sp = []
    for n in (1, 2, 3, 4, 5):
        sp.append(("1d", (n,), (-3, -2, -1, 0, 1, 2, 3)))
    sp += [("2d", (2, 2), (-2, -1, 0, 1, 2)), ("2d", (2, 3), (-2, -1, 0, 1, 2)), ("2d", (3, 2), (-2, -1, 0, 1, 2))]
    sp += [("3d", (2, 2, 2), (-1, 0, 1, 2))]
    # four lanes: room for a level with TWO tied lanes next to a level with one lane below a higher level (multiplicities 2+1)
    sp += [("2d", (2, 4), (0, 1, 2)), ("2d", (4, 2), (0, -1, 2))]
    if tier == "thorough":
        sp += [("1d", (6,), (-2, -1, 0, 1, 2)), ("2d", (3, 3), (-1, 0, 1, 2)), ("2d", (2, 4), (-2, -1, 0, 1, 2)), ("3d", (2, 2, 3), (-1, 0, 1)),
               ("2d", (4, 2), (-2, -1, 0, 1, 2))]
    return sp


def deep_arrays():
    """Many distinct priority levels in one array (weights grow to ~2^61): 1-D arrays with n distinct magnitudes (n up to 62) in several
    orders and sign patterns, with and without ties/zeros, and tall 2-D arrays whose every row is its own level."""
    out = []
    for n in (8, 16, 24, 31, 32, 33, 40, 48, 56, 62):
        base = list(range(1, n + 1))
        for order in ("asc", "desc", "inter"):
            v = base if order == "asc" else base[::-1] if order == "desc" else base[::2] + base[1::2][::-1]
            for signs in ("+", "-", "alt"):
                w = [x if signs == "+" else -x if signs == "-" else (x if i % 2 else -x) for i, x in enumerate(v)]
                out.append(("1d", np.array(w, dtype=np.int64)))
        out.append(("1d", np.array(base + base[: n // 2] + [0, 0], dtype=np.int64)))           # ties and zeros
    for k, mult in ((30, 2), (34, 2), (36, 2), (38, 2), (39, 2), (20, 4), (24, 4), (26, 4), (22, 3), (27, 6)):
        # k levels, each shared by `mult` entries (mixed signs): weights grow like (mult+1)^k, i.e. are NOT powers of two and exceed 2^53
        v = []
        for lev in range(1, k + 1):
            v += [lev if j % 2 == 0 else -lev for j in range(mult)]
        out.append(("1d", np.array(v, dtype=np.int64)))
        out.append(("1d", np.array(v[::-1], dtype=np.int64)))
        out.append(("1d", np.array(v[1::2] + v[0::2] + [k + 1], dtype=np.int64)))
    for r in (8, 16, 31, 40, 61):
        X = np.zeros((r, r), dtype=np.int64)
        for i in range(r):
            X[i, i] = 1 if i % 3 else -2
        out.append(("2d", X))                    # every row its own level: r levels
        out.append(("2d", X[:, ::-1].copy()))
        Y = X.copy()
        Y[-1, :] = 0
        Y[:, 0] = 3                              # first column overridden in every row
        out.append(("2d", Y))
    return out


_DEEP = None


def deep():
    global _DEEP
    if _DEEP is None:
        _DEEP = deep_arrays()
    return _DEEP


def shards(tier):
    out = [("deep", lo, min(len(deep()), lo + 12)) for lo in range(0, len(deep()), 12)]
    for si, (kind, shape, alpha) in enumerate(spaces(tier)):
        n = len(alpha) ** int(np.prod(shape))
        step = 1500
        out += [(si, lo, min(n, lo + step)) for lo in range(0, n, step)]
    return out


def decode(idx, shape, alpha):
    vals = []
    for _ in range(int(np.prod(shape))):
        idx, d = divmod(idx, len(alpha))
        vals.append(alpha[d])
    return np.array(vals, dtype=np.int64).reshape(shape)


def run_shard(desc, acc, tier):
    if desc[0] == "deep":
        for idx in range(desc[1], desc[2]):
            kind, X = deep()[idx]
            check_array(X, kind, acc, {"tier": tier, "si": "deep", "idx": idx})
        return
    si, lo, hi = desc
    kind, shape, alpha = spaces(tier)[si]
    for idx in range(lo, hi):
        X = decode(idx, shape, alpha)
        check_array(X, kind, acc, {"tier": tier, "si": si, "idx": idx})


# ---------------------------------------------------------------- reference
def levels(X2):
    """X2: 2-D, axis 0.  Per column: None or (row of last non-zero, magnitude, sign)."""
    out = []
    for j in range(X2.shape[1]):
        nz = [i for i in range(X2.shape[0]) if X2[i, j] != 0]
        if not nz:
            out.append(None)
        else:
            i = nz[-1]
            v = int(X2[i, j])
            out.append((i, abs(v), 1 if v > 0 else -1))
    return out


def shadow_ok(w, lv):
    w = [int(x) for x in w]
    if len(w) != len(lv):
        return "wrong length"
    for x, l in zip(w, lv):
        if (x == 0) != (l is None):
            return "zero not preserved"
        if l is not None and (x > 0) != (l[2] > 0):
            return "sign not preserved"
    nz = [(l[:2], abs(x)) for x, l in zip(w, lv) if l is not None]
    by = {}
    for l, a in nz:
        by.setdefault(l, set()).add(a)
    if any(len(s) > 1 for s in by.values()):
        return "equal priorities got different weights"
    order = sorted(by)
    ws = [next(iter(by[l])) for l in order]
    for a, b in zip(ws, ws[1:]):
        if not a < b:
            return "weights not ordered like priorities"
    for l, a in nz:
        lower = sum(a2 for l2, a2 in nz if l2 < l)
        if not a > lower:
            return "weight does not dominate the sum of all lower priorities"
    return None


def prio_ref(lv):
    order = sorted({l[:2] for l in lv if l is not None})
    return [0 if l is None else l[2] * (order.index(l[:2]) + 1) for l in lv]


def rank_ok(r, pr):
    r = [int(x) for x in r]
    if len(r) != len(pr):
        return "wrong length"
    for i in range(len(pr)):
        for j in range(len(pr)):
            if (pr[i] < pr[j]) != (r[i] < r[j]):
                return "rank is not strictly monotone in the signed prio"
    vals = sorted(set(r))
    if vals and (vals[0] not in (0, 1) or vals != list(range(vals[0], vals[0] + len(vals)))):
        return "rank is not dense"
    return None


def direct(X2, method):
    out = []
    for j in range(X2.shape[1]):
        col = [int(v) for v in X2[:, j]]
        nz = [v for v in col if v != 0]
        if method == "first":
            out.append(nz[0] if nz else 0)
        elif method == "last":
            out.append(nz[-1] if nz else 0)
        elif method == "min":
            out.append(min(nz) if nz else 0)
        elif method == "max":
            out.append(max(col))
    return out


def fits_64(lv):
    """Stated precondition of 'shadow': the result fits in 64 bits.  Judged on the SMALLEST dominating allocation (exact integers):
    if even that needs more than 2^62 in total, the array is outside the statement."""
    counts = {}
    for l in lv:
        if l is not None:
            counts[l[:2]] = counts.get(l[:2], 0) + 1
    total = 0
    for l in sorted(counts):
        w = total + 1
        total += w * counts[l]
    return total <= 2 ** 62


def judge(X2, method, got):
    """X2 already oriented so that compression is along axis 0.  Returns None or a reason."""
    got = np.asarray(got)
    if got.shape != (X2.shape[1],):
        return f"wrong output shape {got.shape}"
    lv = levels(X2)
    if method == "shadow":
        if not fits_64(lv):
            return "SKIP"
        return shadow_ok(got.tolist(), lv)
    if method == "prio":
        return None if [int(x) for x in got.tolist()] == prio_ref(lv) else "not the signed dense rank of the priorities"
    if method == "rank":
        return rank_ok(got.tolist(), prio_ref(lv))
    return None if [int(x) for x in got.tolist()] == direct(X2, method) else "differs from the direct definition"


def check_array(X, kind, acc, case, only=None):
    acc.n("arrays")
    acc.state(X.tolist())
    if kind == "1d":
        views = [(None, X.reshape(1, -1))]
    elif kind == "2d":
        views = [(0, X), (1, X.T), (None, X.reshape(1, -1))]
    else:
        views = [(0, None)]
    nlev = 0
    for axis, X2 in views:
        for method in METHODS:
            if only is not None and (axis, method) != tuple(only):
                continue
            cs = dict(case, axis=axis, method=method)
            acc.n("traces")
            acc.n("transitions")
            try:
                lay = (case["idx"] if isinstance(case.get("idx"), int) else 0) % 3 if X.ndim >= 2 else 0
                if lay == 1:
                    arr = pnd.integer_ndarray(np.asfortranarray(X))
                elif lay == 2:
                    big = np.zeros(X.shape[:-1] + (2 * X.shape[-1],), dtype=X.dtype)
                    big[..., ::2] = X
                    arr = pnd.integer_ndarray(big)[..., ::2]
                else:
                    arr = pnd.integer_ndarray(X.copy())
                got = arr.ndint_compress(method=method, axis=axis)
            except BaseException as e:
                acc.violation(None, cs, {"what": "ndint_compress raised", "exc": repr(e), "array": X.tolist()})
                continue
            if np.asarray(arr).tolist() != X.tolist():
                acc.violation(None, cs, {"what": "ndint_compress changed the priority array it was called on", "array": X.tolist(), "after": np.asarray(arr).tolist()})
                continue
            acc.obs(method, axis, np.asarray(got).tolist())
            if kind == "3d":
                if method in ("min", "max"):
                    want = np.max(X, axis=0) if method == "max" else None
                    if method == "min":
                        tmp = X.astype(object)
                        want = np.array([[min([int(X[b, i, j]) for b in range(X.shape[0]) if X[b, i, j] != 0], default=0)
                                          for j in range(X.shape[2])] for i in range(X.shape[1])])
                    if np.asarray(got).tolist() != np.asarray(want).tolist():
                        acc.violation(None, cs, {"what": f"3-D {method} differs from the direct definition along axis 0", "array": X.tolist(),
                                                 "got": np.asarray(got).tolist(), "want": np.asarray(want).tolist()})
                    continue
                g = np.asarray(got)
                if g.shape != (X.shape[0], X.shape[2]):
                    acc.violation(None, cs, {"what": "batched 3-D result has the wrong shape", "array": X.tolist(), "got": g.tolist()})
                    continue
                for bi in range(X.shape[0]):
                    why = judge(X[bi], method, g[bi])
                    if why == "SKIP":
                        continue
                    if why:
                        acc.violation(None, cs, {"what": f"batch slice {bi}: {why}", "array": X.tolist(), "got": g.tolist()})
                        break
                    nlev = max(nlev, len({l[:2] for l in levels(X[bi]) if l is not None}))
                continue
            why = judge(X2, method, got)
            if why == "SKIP":
                acc.n("skipped_outside_64_bit_precondition")
                continue
            if why:
                acc.violation(None, cs, {"what": f"{method}: {why}", "array": X.tolist(), "axis": axis, "got": np.asarray(got).tolist(),
                                         "levels(row,magnitude,sign)": levels(X2)})
                continue
            nlev = max(nlev, len({l[:2] for l in levels(X2) if l is not None}))
    if kind == "1d":
        # 1-D input with an explicit axis=0: the VALUE is not claimed (see assumptions), but the caller's array must survive the call
        for method in METHODS:
            if only is not None:
                break
            arr = pnd.integer_ndarray(X.copy())
            acc.n("transitions")
            try:
                arr.ndint_compress(method=method, axis=0)
            except BaseException:
                acc.n("unclaimed_1d_axis0_raised")
                continue
            if np.asarray(arr).tolist() != X.tolist():
                acc.violation(None, dict(case, axis=0, method=method, unclaimed=True),
                              {"what": "ndint_compress changed the priority array it was called on", "array": X.tolist(), "after": np.asarray(arr).tolist(), "axis": 0})
    if nlev >= 2:
        acc.nontriv(X.tolist())
    if acc.counts["arrays"] % 9000 == 1:
        acc.sample({"array": X.tolist(), "shadow_axis0_or_None": np.asarray(pnd.integer_ndarray(X.copy()).ndint_compress(method="shadow", axis=views[0][0])).tolist()})


def replay(case, acc):
    if case["si"] == "deep":
        kind, X = deep()[case["idx"]]
    else:
        kind, shape, alpha = spaces(case["tier"])[case["si"]]
        X = decode(case["idx"], shape, alpha)
    only = (case["axis"], case["method"]) if ("method" in case and not case.get("unclaimed")) else None
    check_array(X, kind, acc, {"tier": case["tier"], "si": case["si"], "idx": case["idx"]}, only=only)
