"""C06 - partial evaluation and tautology/contradiction flags are sound."""
import collections
import itertools

from ..env import np, puan, pg
from .. import ref, families
from ..ast import bind, leaves_of, compounds_of, show, is_var, walk, structure

ID = "C06"
RULE = ("Mode G: every validated model of the families x EVERY partial / interval interpretation (each leaf unspecified or any sub-range "
        "[l,h] of its bounds, given as int / (l,h) tuple / Bounds; the number of non-total leaves is the deviation count and runs from 0 to "
        "all leaves) x every completion (through a per-node reference truth table over all total assignments). oracle: every returned "
        "bound contains the node's reference value under every completion; on every node of the original and of every assumed model "
        "is_tautology / is_contradiction are sound and equation_bounds is the exact (min,max) of sign*sum-value over the direct children "
        "box (brute force). Interpretations may also name ONE sub-proposition id (0 / 1 as int, tuple or Bounds: override; (0,1): open), combined "
        "with every fifth leaf interpretation, on abc, at, diamonds. non-trivial = distinct (model, interpretation) whose top result is a proper interval or a decided constant "
        "with at least one unspecified leaf")
ASSUMPTIONS = [
    "filter errors()==[]",
    "ids below a pre-fixed node may be absent from the result (by design)",
]
BOUNDS = {
    "quick": "abc explicit (64 interval interpretations each), at explicit (64), diamonds explicit, fixed/ab; 16-bit family wide/1 x 9 interval options per wide leaf x grid completions",
    "thorough": "quick + abt (256 interpretations), abc generated, abu, d3/abc, diamonds generated, abct",
}
QUICK = ["abc/explicit", "at/explicit", "diamond/explicit", "fixed/ab", "mix3/abt/explicit", "empty/ab", "au/explicit"]
THOROUGH = QUICK + ["abt/explicit", "abc/generated", "au/explicit", "d3/abc/explicit", "diamond/generated", "abct/explicit", "tn/explicit"]


COMPOUND_FAMS = ("abc/explicit", "at/explicit", "diamond/explicit", "abc/generated", "d3/abc/explicit")


def shards(tier):
    return families.shards_for(QUICK if tier == "quick" else THOROUGH, 250) + [("W",) + s for s in families.shards_for(["wide/1"], 12)]


def run_shard(desc, acc, tier):
    if desc[0] == "W":
        _, fam, lo, hi = desc
        for k, m in enumerate(families.family(fam)[lo:hi], start=lo):
            check_wide(m, acc, fam, k)
        return
    fam, lo, hi = desc
    for k, m in enumerate(families.family(fam)[lo:hi], start=lo):
        check_model(m, acc, fam, k)
        if fam in COMPOUND_FAMS:
            check_compound_entries(m, acc, fam, k)


WIDE_OPTS = [None, (0, 30000), (-30000, 30000), "lo..0", "1..hi", "lo", "hi", (0, 0), (-1, 1)]
CENTRES = (0, 32767, -32767, -32768, 30000, -30000, 1, -1)


def wide_grid(lo, hi):
    """Completion grid of a 16-bit leaf restricted to [lo,hi]: every c+delta, c in CENTRES and the interval ends (and their negations),
    |delta|<=8.  The reference of these families is piecewise constant with breakpoints at (threshold - other leaves), which lie on the grid
    of the other leaf negated plus a small offset; this is an argument about the reference - coverage is the grid, and is reported as such."""
    cs = set(CENTRES) | {lo, hi, -lo, -hi}
    pts = {c + d for c in cs for d in range(-8, 9)}
    return np.array(sorted(p for p in pts if lo <= p <= hi), dtype=np.int64)


def check_wide(m, acc, fam, k, only=None):
    case0 = {"fam": fam, "k": k, "ast": m, "wide": True}
    obj, b = bind(m)
    if obj.errors():
        acc.n("skipped_invalid")
        return
    acc.n("models")
    acc.state(m)
    leaves = leaves_of(m)
    lids = list(leaves)
    comps = compounds_of(m)
    idof = {c: b.memo[c].id for c in comps}
    opts = []
    for i in lids:
        lo, hi = leaves[i]
        if hi - lo > 100:
            o = []
            for w in WIDE_OPTS:
                if w == "lo..0":
                    w = (lo, 0)
                elif w == "1..hi":
                    w = (1, hi)
                elif w == "lo":
                    w = (lo, lo)
                elif w == "hi":
                    w = (hi, hi)
                if w is None or (lo <= w[0] and w[1] <= hi):
                    o.append(w)
            opts.append(o)
        else:
            opts.append(leaf_options(lo, hi))
    for o in walk(obj).values():
        if not is_var(o):
            if not check_flags(o, acc, case0, "original model (16-bit leaves)"):
                return
    for ii, choice in enumerate(itertools.product(*opts)):
        if only is not None and ii != only:
            continue
        interp = {}
        grids = []
        for j, (i, rng) in enumerate(zip(lids, choice)):
            lo, hi = leaves[i] if rng is None else rng
            if rng is not None:
                interp[i] = as_value(rng, (ii + j + k) % 3)
            grids.append(wide_grid(lo, hi) if hi - lo > 100 else np.arange(lo, hi + 1, dtype=np.int64))
        mesh = np.meshgrid(*grids, indexing="ij") if grids else []
        env = {i: g.reshape(-1) for i, g in zip(lids, mesh)}
        table = {}
        ref.truth_vec(m, env, table)
        case = dict(case0, interp_index=ii)
        obj, _ = bind(m)
        acc.n("traces")
        acc.n("transitions")
        try:
            res = obj.evaluate_propositions(interp)
        except BaseException as e:
            acc.violation(None, case, {"what": "evaluate_propositions raised", "exc": repr(e), "model": show(m), "interpretation": repr(interp)})
            continue
        acc.obs(sorted((str(k_), tuple(map(int, v.as_tuple()))) for k_, v in res.items()))
        for node, vals in table.items():
            nid = node[1] if node[0] == 'L' else idof[node]
            got = res.get(nid)
            mn, mx = int(vals.min()), int(vals.max())
            if got is None or got.lower > mn or got.upper < mx:
                jbad = int(np.argmax(vals > got.upper)) if got is not None and got.upper < mx else (int(np.argmax(vals < got.lower)) if got is not None else 0)
                acc.violation(None, case, {"what": "returned bounds do not contain the node's value under every completion", "model": show(m),
                                           "interpretation": repr(interp), "node": str(nid), "returned": None if got is None else tuple(map(int, got.as_tuple())),
                                           "reference_range_over_grid_completions": (mn, mx), "contradicting_completion": {i: int(env[i][jbad]) for i in lids}})
                break
        else:
            acc.hist("wide_top_result", tuple(map(int, res[idof[m]].as_tuple())))
            acc.nontriv((m, ii))


def leaf_options(lo, hi):
    """None (unspecified) + every sub-range."""
    out = [None]
    for l in range(lo, hi + 1):
        for h in range(l, hi + 1):
            out.append((l, h))
    return out


def as_value(rng, form):
    l, h = rng
    if form == 0 and l == h:
        return l
    if form == 1:
        return puan.Bounds(l, h)
    return (l, h)


def check_flags(o, acc, case, where):
    """Flags of one node object against brute force over its direct children box."""
    box = [p.bounds.as_tuple() for p in o.propositions]
    n = 1
    for lo, hi in box:
        n *= hi - lo + 1
    if n > 20000:
        # too wide to enumerate: the range of a signed sum over a box is attained at its corners (exact Python integers)
        lo_ = sum(int(lo) for lo, hi in box)
        hi_ = sum(int(hi) for lo, hi in box)
        ends = (int(o.sign) * lo_ - int(o.value), int(o.sign) * hi_ - int(o.value))
        mn, mx = min(ends), max(ends)
        acc.n("flags_wide_by_corners")
    else:
        pts = ref.box_points(box)
        lhs = o.sign * pts.sum(axis=1) - o.value
        mn, mx = int(lhs.min()), int(lhs.max())
    acc.n("transitions", 3)
    eb = tuple(int(x) for x in o.equation_bounds)
    if eb != (mn, mx):
        acc.violation(None, case, {"what": f"{where}: equation_bounds is not the exact attainable range", "node": repr(o),
                                   "children_bounds": box, "got": eb, "exact": (mn, mx)})
        return False
    if o.is_tautology and mn < 0:
        acc.violation(None, case, {"what": f"{where}: reported tautology but some child valuation makes it false", "node": repr(o), "children_bounds": box})
        return False
    if o.is_contradiction and mx >= 0:
        acc.violation(None, case, {"what": f"{where}: reported contradiction but some child valuation makes it true", "node": repr(o), "children_bounds": box})
        return False
    acc.hist("flags", ("T" if o.is_tautology else "") + ("C" if o.is_contradiction else "") or "-")
    return True


def check_model(m, acc, fam, k, only_interp=None):
    case0 = {"fam": fam, "k": k, "ast": m}
    try:
        obj, b = bind(m)
        if obj.errors():
            acc.n("skipped_invalid")
            return
    except BaseException as e:
        acc.violation(None, case0, {"what": "construction / errors raised", "exc": repr(e), "model": show(m)})
        return
    acc.n("models")
    acc.state(m)
    leaves = leaves_of(m)
    lids = list(leaves)
    comps = compounds_of(m)
    idof = {c: b.memo[c].id for c in comps}
    for o in walk(obj).values():
        if not is_var(o):
            if not check_flags(o, acc, case0, "original model"):
                return
    # per-node reference truth table over all total assignments
    alphas = list(ref.assignments(leaves))
    L_ = np.array([[a[i] for i in lids] for a in alphas], dtype=np.int64)
    node_ids = None
    rows = []
    for a in alphas:
        table = {}
        ref.truth(m, a, None, table)
        if node_ids is None:
            node_ids = [(n_[1] if n_[0] == 'L' else idof[n_]) for n_ in table]
        rows.append(list(table.values()))
    V = np.array(rows, dtype=np.int64)            # (n_assign, n_nodes)
    opts = [leaf_options(*leaves[i]) for i in lids]
    for ii, choice in enumerate(itertools.product(*opts)):
        if only_interp is not None and ii != only_interp:
            continue
        interp = {}
        mask = np.ones(len(alphas), dtype=bool)
        for j, (i, rng) in enumerate(zip(lids, choice)):
            if rng is None:
                continue
            interp[i] = as_value(rng, (ii + j + k) % 3)
            mask &= (L_[:, j] >= rng[0]) & (L_[:, j] <= rng[1])
        case = dict(case0, interp_index=ii)
        obj, _ = bind(m)
        acc.n("traces")
        acc.n("transitions")
        try:
            if ii % 6 == 2 and len(comps) > 1:
                # a receiver with a past: something was assumed about a leaf, and the DERIVED model was then asked with a sub-proposition
                # fixed. Neither call is on the receiver's own nodes, so the partial evaluation that follows must be what it is on a fresh one
                cid = idof[comps[1 + (ii // 6) % (len(comps) - 1)]]
                der = obj.assume({lids[0]: leaves[lids[0]][ii % 2]})
                if not is_var(der):
                    der.evaluate({cid: (ii // 2) % 2})
                acc.n("transitions", 2)
            # the kind of mapping is not part of the contract: plain dict, OrderedDict, and the dict subclasses whose lookup never
            # raises for an absent key (defaultdict, Counter - a natural 'cart'), in rotation; absent ids stay unspecified
            kind_ = (ii + k) % 4
            given = interp if kind_ == 0 else (collections.OrderedDict(interp) if kind_ == 1 else
                                               (collections.defaultdict(int, interp) if kind_ == 2 else collections.Counter(interp)))
            n_keys = len(given)
            res = obj.evaluate_propositions(given)
            if len(given) != n_keys:
                acc.violation(None, case, {"what": "evaluate_propositions added keys to the caller's mapping", "model": show(m), "interpretation": repr(given)})
                continue
        except BaseException as e:
            acc.violation(None, case, {"what": "evaluate_propositions raised", "exc": repr(e), "model": show(m), "interpretation": repr(interp)})
            continue
        acc.obs(sorted((str(k_), v.as_tuple()) for k_, v in res.items()))
        sub = V[mask]
        mn, mx = sub.min(axis=0), sub.max(axis=0)
        bad = None
        for j, nid in enumerate(node_ids):
            got = res.get(nid)
            if got is None:
                bad = (str(nid), "missing", None)
                break
            lo, hi = got.as_tuple()
            if lo > mn[j] or hi < mx[j]:
                bad = (str(nid), (lo, hi), (int(mn[j]), int(mx[j])))
                break
        if bad:
            # a completion that contradicts the returned bound
            jn = node_ids.index(bad[0]) if bad[1] != "missing" else 0
            acc.violation(None, case, {"what": "returned bounds do not contain the node's value under every completion", "model": show(m),
                                       "interpretation": repr(interp), "node": bad[0], "returned": bad[1], "reference_range_over_completions": bad[2]})
            continue
        if ii % 7 == 3:
            # the 'out' callable: applied to each node's bounds, nothing else changes
            try:
                o3, _ = bind(m)
                res_out = o3.evaluate_propositions(dict(interp), out=lambda x: ("out", x.lower, x.upper))
            except BaseException as e:
                acc.violation(None, case, {"what": "evaluate_propositions(out=...) raised", "exc": repr(e), "model": show(m), "interpretation": repr(interp)})
                continue
            acc.n("transitions")
            if {k_: ("out",) + tuple(v.as_tuple()) for k_, v in res.items()} != {k_: tuple(v) if v is not None else None for k_, v in res_out.items()}:
                acc.violation(None, case, {"what": "evaluate_propositions(out=f) is not f applied to each node's bounds", "model": show(m),
                                           "interpretation": repr(interp), "plain": {str(k_): v.as_tuple() for k_, v in res.items()}, "with_out": repr(res_out)[:400]})
                continue
        top = res[idof[m]].as_tuple()
        n_unspec = sum(1 for c in choice if c is None or c[0] != c[1])
        acc.hist("deviations(non-total leaves)", n_unspec)
        acc.hist("top_result", top)
        if n_unspec > 0:
            acc.nontriv((m, ii))
        # flags on the assumed model (children bounds narrowed)
        if ii % 4 == 1:
            obj2, _ = bind(m)
            try:
                asm = obj2.assume(interp)
            except BaseException as e:
                acc.violation(None, case, {"what": "assume raised", "exc": repr(e), "model": show(m), "interpretation": repr(interp)})
                continue
            acc.n("transitions")
            for o in walk(asm).values():
                if not is_var(o):
                    if not check_flags(o, acc, case, "assumed model"):
                        break
        if acc.counts["traces"] % 30000 == 1:
            acc.sample({"model": show(m), "interpretation": repr(interp), "result": {str(k_): v.as_tuple() for k_, v in res.items()},
                        "completions": int(mask.sum())})


def check_compound_entries(m, acc, fam, k, only=None):
    """Interpretations that ALSO name one sub-proposition id (the top included): a constant 0 / 1 given as int, tuple or Bounds overrides
    the node; the range (0,1) leaves it open. Combined with every fifth leaf interpretation (a fixed residue class per compound/option).
    oracle: the returned bounds of every node contain its value under every completion of the leaves - with the named node at the given
    constant (reference truth with override), resp. computed from its definition for (0,1)."""
    case0 = {"fam": fam, "k": k, "ast": m, "mode": "compound"}
    obj, b = bind(m)
    if obj.errors():
        return
    leaves = leaves_of(m)
    lids = list(leaves)
    comps = compounds_of(m)
    idof = {c: b.memo[c].id for c in comps}
    alphas = list(ref.assignments(leaves))
    L_ = np.array([[a[i] for i in lids] for a in alphas], dtype=np.int64)
    opts = [leaf_options(*leaves[i]) for i in lids]
    choices = list(itertools.product(*opts))
    for ci, c in enumerate(comps):
        for oi, rng in enumerate([(0, 0), (1, 1), (0, 1)]):
            if only is not None and (ci, oi) != tuple(only[:2]):
                continue
            ovr = {c: rng[0]} if rng[0] == rng[1] else None
            node_ids, rows = None, []
            for a in alphas:
                table = {}
                ref.truth(m, a, ovr, table)
                if node_ids is None:
                    node_ids = [(n_[1] if n_[0] == 'L' else idof[n_]) for n_ in table]
                rows.append(list(table.values()))
            V = np.array(rows, dtype=np.int64)
            for ii in range((ci + oi + k) % 5, len(choices), 5):
                if only is not None and ii != only[2]:
                    continue
                choice = choices[ii]
                interp = {idof[c]: as_value(rng, (ii + ci + k) % 3)}
                mask = np.ones(len(alphas), dtype=bool)
                for j, (i, r_) in enumerate(zip(lids, choice)):
                    if r_ is None:
                        continue
                    interp[i] = as_value(r_, (ii + j + k) % 3)
                    mask &= (L_[:, j] >= r_[0]) & (L_[:, j] <= r_[1])
                case = dict(case0, comp=[ci, oi, ii])
                o2, _ = bind(m)              # fresh receiver: naming a sub-proposition id assigns its variable (C09 finding D3)
                acc.n("traces")
                acc.n("transitions")
                try:
                    res = o2.evaluate_propositions(dict(interp))
                except BaseException as e:
                    acc.violation(None, case, {"what": "evaluate_propositions raised", "exc": repr(e), "model": show(m), "interpretation": repr(interp)})
                    continue
                acc.obs(sorted((str(k_), v.as_tuple()) for k_, v in res.items()))
                sub = V[mask]
                mn, mx = sub.min(axis=0), sub.max(axis=0)
                for j, nid in enumerate(node_ids):
                    got = res.get(nid)
                    if got is None:
                        continue      # nodes cut off below an overridden node need not be reported
                    lo, hi = got.as_tuple()
                    if lo > mn[j] or hi < mx[j]:
                        acc.violation(None, case, {"what": "interpretation naming a sub-proposition: returned bounds do not contain the node's value under every completion",
                                                   "model": show(m), "interpretation": repr(interp), "node": str(nid), "returned": (int(lo), int(hi)),
                                                   "reference_range_over_completions": (int(mn[j]), int(mx[j]))})
                        break
                else:
                    acc.hist("compound_entry", f"{rng}")
                    if mn[node_ids.index(idof[m])] != mx[node_ids.index(idof[m])]:
                        acc.nontriv((m, "comp", ci, oi, ii))


def replay(case, acc):
    from ..runner import tuplify
    if case.get("mode") == "compound":
        check_compound_entries(tuplify(case["ast"]), acc, case["fam"], case["k"], only=case["comp"])
        return
    if case.get("wide"):
        check_wide(tuplify(case["ast"]), acc, case["fam"], case["k"], only=case.get("interp_index"))
        return
    check_model(tuplify(case["ast"]), acc, case["fam"], case["k"], only_interp=case.get("interp_index"))
