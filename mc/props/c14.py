"""C14 - configurator objectives realise choices over defaults over stinginess."""
import itertools

from ..env import np, puan, pg, cc, pnd, clear_caches
from .. import ref, cfgspace
from ..ast import bind, show, walk, is_var

ID = "C14"
RULE = ("Mode G+M: EVERY configurator with 1..2 rules from a 37-rule menu (incl. defaulted rules whose non-default alternative is a compound package shared with other rules) (cc.Any / cc.Xor with and without default at every position, "
        "pg.Any, pg.Xor, AtMost(k), All, Imply with item/All/Any conditions and item/All/defaulted consequences; explicit and generated rule "
        "ids) x EVERY priority dictionary of the alphabet (0..3 ids, values in {-3..3}\\{0}: ties, several levels, negatives, a rule id, an "
        "unknown id) -> select(*prios, solver=capture), on the configurator as built, again after StingyConfigurator.from_json(to_json()), and on its polyhedron after a base64 round trip; the empty and every 8th dictionary also alone in a call of its own; every fourth configurator over items of a subclass of puan.variable; defaults that drag a bundle of >=3 selections; several defaults out of id order. oracle: over ALL feasible 0/1 points of the polyhedron the captured objective is "
        "strictly increasing in the lexicographic key (user levels by descending magnitude with signed counts, then -#selected prio -2 "
        "tags, then -#selected remaining columns) and constant inside a key (= all pairs, by one sort); default_prio_vector is -1 with "
        "-2 exactly at the non-default branch nodes, which are checked against the rule definitions; derived: a feasible top-priority "
        "item is selected by the exact solver. non-trivial = distinct (configurator, dictionary) with >=3 distinct keys")
ASSUMPTIONS = [
    "all items boolean (stated)", "process-wide lru caches are cleared per configurator (they are state under test only in C09)",
    "the -2 tags are read from the real objects (default_prios) and cross-checked against the AST: one tagged inner node per defaulted rule, over exactly the non-default items",
]
BOUNDS = {"quick": "all 1..2-rule configurators (both id policies) + every sixth 3-rule configurator (explicit ids), 116 dictionaries in one call + the empty and every 8th dictionary in a call of its own", "thorough": "all 1..3-rule configurators, both id policies, 116 dictionaries"}


_CFG = {}


def cfgs(tier):
    if tier not in _CFG:
        three = [c for c in cfgspace.configurators(3, ("explicit",)) if len(c[1][3]) == 3]
        if tier == "quick":
            # the two-rule space completely, plus every sixth three-rule configurator (a fixed sub-space, not a sample per run)
            _CFG[tier] = list(cfgspace.configurators(2)) + three[::6]
        else:
            _CFG[tier] = list(cfgspace.configurators(2)) + three + [c for c in cfgspace.configurators(3, ("generated",)) if len(c[1][3]) == 3]
    return _CFG[tier]


_CFG2 = {}


def cfgs2(tier):
    """The one- and two-rule configurators only (C15, C16, C17 use these in their quick tier; everything in thorough)."""
    if tier not in _CFG2:
        _CFG2[tier] = list(cfgspace.configurators(2)) if tier == "quick" else cfgs(tier)
    return _CFG2[tier]


def shards(tier):
    n = len(cfgs(tier))
    return [(lo, min(n, lo + 8)) for lo in range(0, n, 8)]


def run_shard(desc, acc, tier):
    lo, hi = desc
    first = {}
    for k in range(lo, hi):
        check_cfg(k, tier, acc)
        if k % 2 == 0 or "|" in cfgs(tier)[k][0]:
            check_cfg(k, tier, acc, via_json=True)      # the same configurator after a JSON round trip (every defaulted one, every second other one)
        if "|" in cfgs(tier)[k][0] and k % 2 == 1:
            check_cfg(k, tier, acc, via_b64=True)       # its polyhedron after a base64 round trip (every second defaulted one)
        d = cfg_digest(k, tier)
        if d is not None:
            first[k] = d
    # the same queries again in REVERSE order, without clearing anything in between: a configurator's polyhedron, default priorities and
    # objective may not depend on which configurators were queried before (neighbours are equal under __eq__ and differ in one rule)
    for k in range(hi - 1, lo - 1, -1):
        if k in first:
            d = cfg_digest(k, tier)
            acc.n("transitions", 3)
            if d != first[k]:
                acc.violation(None, {"tier": tier, "k": k, "lo": lo, "hi": hi, "reverse": True, "cfg": cfgs(tier)[k][0]},
                              {"what": "polyhedron / default priorities / objective of a configurator depend on which configurators were queried before (history)",
                               "first_pass": first[k][:300], "reverse_pass": d[:300]})


def cfg_digest(k, tier):
    name, ast = cfgs(tier)[k]
    try:
        cfg, _ = bind(ast)
        if cfg.errors():
            return None
        P = cfg.ge_polyhedron
        cap = cfgspace.Capture("none")
        list(cfg.select({}, {"a": 1, "x": -1}, solver=cap))
        return repr((np.asarray(P).tolist(), [repr(v.id) for v in P.variables], np.asarray(P.default_prio_vector).tolist(),
                     sorted((repr(a), b) for a, b in cfg.default_prios.items()), [np.asarray(o).tolist() for o in cap.calls[0][1]]))
    except BaseException as e:
        return "EXC " + repr(e)


def expected_tags(cfg_ast):
    """Sets of item ids that must sit under a prio -2 node: complement of the default in every defaulted rule."""
    out = []

    def visit(a):
        if a[0] != 'C':
            return
        _, kind, i, args, extra = a
        if kind in ('Any', 'Xor') and isinstance(extra, tuple) and extra and extra[0] == 'default' and extra[1]:
            d = extra[1][0]
            ids = [(x[1] if x[0] == 'L' else x[2]) for x in args]
            if d in ids and len(ids) > 1:
                out.append(frozenset(x for x in ids if x != d))
        for x in args:
            visit(x)
    visit(cfg_ast)
    return out


def lex_key(x, ids, prio, tags):
    """x: 0/1 vector over columns `ids`."""
    mags = sorted({abs(v) for i, v in prio.items() if v != 0 and i in ids}, reverse=True)
    key = []
    pos = {i: j for j, i in enumerate(ids)}
    for mg in mags:
        key.append(sum((1 if v > 0 else -1) * int(x[pos[i]]) for i, v in prio.items() if abs(v) == mg and i in pos))
    user = {i for i, v in prio.items() if v != 0}
    key.append(-sum(int(x[pos[i]]) for i in ids if i in tags and i not in user))
    key.append(-sum(int(x[pos[i]]) for i in ids if i not in tags and i not in user))
    return tuple(key)


def check_cfg(k, tier, acc, only=None, via_json=False, via_b64=False):
    name, ast = cfgs(tier)[k]
    case0 = {"tier": tier, "k": k, "cfg": name, "via_json": via_json, "via_b64": via_b64}
    clear_caches()
    try:
        # every fourth configurator over items that are instances of a user-defined subclass of puan.variable
        cfg, _ = bind(ast, leaf_subclass=(k % 4 == 2 and not via_json))
        if via_json:
            import json as _json
            if cfg.errors():
                return
            cfg = cc.StingyConfigurator.from_json(_json.loads(_json.dumps(cfg.to_json())))
        if cfg.errors():
            acc.n("skipped_invalid")
            return
        dp = dict(cfg.default_prios)
        P = cfg.ge_polyhedron
        sel = cfg
        if via_b64:
            # the configurator's polyhedron after a base64 round trip: select() on the unpacked object must hand out the same ranking
            P = pnd.ge_polyhedron_config.from_b64(P.to_b64())
            sel = P
    except BaseException as e:
        acc.violation(None, case0, {"what": "construction / ge_polyhedron raised", "exc": repr(e)})
        return
    acc.n("configurators")
    acc.state(ast)
    acc.n("transitions", 2)
    ids = [v.id for v in P.A.variables]
    if len(ids) > 16:
        acc.n("skipped_too_many_columns")
        return
    # tags: the non-default branch nodes, found by an identity walk (flatten() merges equal ids) and cross-checked against the rules
    objs_ = list(walk(cfg).values())
    tagged = {o.id for o in objs_ if getattr(o, "prio", -1) != -1}
    got_sets = sorted({tuple(sorted(p.id for p in o.propositions)) for o in objs_ if getattr(o, "prio", -1) != -1})
    exp = expected_tags(ast)
    known = sorted({tuple(sorted(s)) for s in exp if None not in s})          # alternatives with generated ids cannot be named from the AST
    n_unknown = len({s for s in exp if None in s})
    want_sets = known
    ok_tags = (set(known) <= set(got_sets)) and (len(got_sets) <= len(known) + n_unknown) and (n_unknown > 0 or got_sets == known)
    if any(getattr(o, "prio", -1) not in (-1, -2) for o in objs_) or not ok_tags:
        acc.violation(None, case0, {"what": "prio -2 tags are not exactly the non-default branches of the defaulted rules", "tagged_children": got_sets,
                                    "expected": want_sets, "default_prios": {str(a): b for a, b in dp.items()}})
        return
    # an untagged node with the same (generated) id as a tagged one: the library keeps one of the two
    coincide = {o.id for o in objs_ if o.id in tagged and getattr(o, "prio", -1) == -1}
    acc.hist("tag_shares_id_with_untagged_node", bool(coincide))
    dpv = np.asarray(P.default_prio_vector).tolist()
    want_dpv = [(-2 if i in tagged else -1) for i in ids]
    if any(g != w and not (i in coincide and g == -1) for g, w, i in zip(dpv, want_dpv, ids)) or len(dpv) != len(ids):
        acc.violation(None, case0, {"what": "default_prio_vector is not -1 everywhere with -2 at the tagged columns", "got": dpv, "columns": list(map(str, ids)),
                                    "tagged": sorted(map(str, tagged))})
        return
    pts, feas = cfgspace.feasible_points(P)
    F = pts[feas]
    if len(F) == 0:
        acc.n("infeasible_configurators")
        return
    prios = cfgspace.prio_dicts()
    cap = cfgspace.Capture("exact")
    try:
        sols = list(sel.select(*[dict(p) for p in prios], solver=cap))
    except BaseException as e:
        acc.violation(None, case0, {"what": "select raised", "exc": repr(e)})
        return
    acc.n("transitions")
    if len(cap.calls) != 1 or len(cap.calls[0][1]) != len(prios):
        acc.violation(None, case0, {"what": "solver did not receive one objective per priority dictionary", "n_calls": len(cap.calls)})
        return
    objs = cap.calls[0][1]
    # the same dictionaries handed over ONE PER CALL (and the empty one twice in one call): the objective of a dictionary may not depend
    # on what else is in the batch. Explored for the empty dictionary, every 8th other one, and any dictionary named by a replay.
    singles = [pi for pi, p_ in enumerate(prios) if not p_ or pi % 8 == 3]
    work = [(pi, prios[pi], objs[pi], False) for pi in range(len(prios))]
    for pi in singles:
        if only is not None and pi != only:
            continue
        cap1 = cfgspace.Capture("exact")
        try:
            batch = [dict(prios[pi])] * (2 if not prios[pi] else 1)
            s1 = list(sel.select(*batch, solver=cap1))
        except BaseException as e:
            acc.violation(None, dict(case0, pi=pi, single=True), {"what": "select raised on a single dictionary", "exc": repr(e), "prios": prios[pi]})
            continue
        acc.n("transitions")
        if len(cap1.calls) != 1 or len(cap1.calls[0][1]) != len(batch):
            acc.violation(None, dict(case0, pi=pi, single=True), {"what": "solver did not receive one objective per priority dictionary", "n_calls": len(cap1.calls)})
            continue
        for o1 in cap1.calls[0][1]:
            work.append((pi, prios[pi], o1, True))
    for pi, prio, o, single in work:
        if only is not None and pi != only:
            continue
        case = dict(case0, pi=pi, single=single)
        acc.n("traces")
        o = np.asarray(o, dtype=np.int64)
        acc.obs(o.tolist())
        if o.shape != (len(ids),):
            acc.violation(None, case, {"what": "objective has the wrong length", "objective": o.tolist()})
            continue
        vals = F @ o
        keys = [lex_key(x, ids, prio, tagged) for x in F]
        order = sorted(range(len(F)), key=lambda j: keys[j])
        bad = None
        for a, b in zip(order, order[1:]):
            if keys[a] == keys[b]:
                if vals[a] != vals[b]:
                    bad = (a, b, "equal lexicographic keys but different objective values")
                    break
            elif not vals[a] < vals[b]:
                bad = (a, b, "objective does not rank the lexicographically better configuration higher")
                break
        if bad:
            a, b, why = bad
            acc.violation(None, case, {"what": why, "prios": prio, "columns": list(map(str, ids)), "objective": o.tolist(),
                                       "worse": {"x": F[a].tolist(), "key": keys[a], "value": int(vals[a])},
                                       "better": {"x": F[b].tolist(), "key": keys[b], "value": int(vals[b])}, "tagged": sorted(map(str, tagged))})
            continue
        nkeys = len(set(keys))
        if single:
            continue
        acc.hist("distinct_keys", min(nkeys, 9))
        if nkeys >= 3:
            acc.nontriv((ast, pi))
        # derived: feasible top-priority positive item is selected
        sol = sols[pi][0]
        tops = [i for i, v in prio.items() if v > 0 and abs(v) == max(abs(w) for w in prio.values()) and i in ids]
        if len(tops) == 1 and sum(1 for v in prio.values() if abs(v) == abs(prio[tops[0]])) == 1:
            j = ids.index(tops[0])
            if F[:, j].any() and sol.get(tops[0]) != 1:
                acc.violation(None, case, {"what": "a feasible prioritised item was not selected by the exact solver", "prios": prio, "solution": {str(a): int(b) for a, b in sol.items()}})
                continue
        if not prio:
            acc.hist("default_solution_size", int(sum(sol.values())))
    if k % 60 == 0:
        acc.sample({"configurator": name, "columns": list(map(str, ids)), "tagged(-2)": sorted(map(str, tagged)), "feasible_points": int(len(F)),
                    "prios": prios[40], "objective": np.asarray(objs[40]).tolist()})


def replay(case, acc):
    if case.get("reverse"):
        run_shard((case["lo"], case["hi"]), acc, case["tier"])
        return
    check_cfg(case["k"], case["tier"], acc, only=case.get("pi"), via_json=bool(case.get("via_json")), via_b64=bool(case.get("via_b64")))
