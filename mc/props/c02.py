"""C02 - integer solutions of the polyhedron are exactly the satisfying configurations."""
import itertools

from ..env import np, puan, pg
from .. import ref, families
from ..ast import bind, leaves_of, compounds_of, show, is_var, solver_safe_obj, structure

ID = "C02"
RULE = ("Mode G: every validated model of the raw families and every connective formula object (Not/Imply/XNor/Xor structures built by the "
        "real constructors) whose asserted polyhedron has <=14 columns -> to_ge_polyhedron(active=True) x ALL in-bounds integer points of "
        "the column box (auxiliary columns free in {0,1}). oracle: (a) every leaf assignment with reference truth 1 is the leaf part of a "
        "feasible point (nothing lost); (b) for models in solver-safe form (real structure) every feasible point's leaf part has reference "
        "truth 1 and evaluate()==1. Columns wider than 22 values (16-, 25- and 31-bit leaves) are covered by a region grid (around 0 and both extremes) instead of the whole box; every fifth model is built over leaves of a subclass of puan.variable. Spurious points of non-solver-safe models are counted, not flagged. non-trivial = distinct model with "
        "both feasible and infeasible points")
ASSUMPTIONS = [
    "filter errors()==[]; models with a pre-fixed compound are outside the statement",
    "solver-safe is judged on the real object structure (so Not/Imply/XNor results are judged after the inward push)",
    "formulas written only with positive connectives, Imply, Not and XNor over safe arguments (AtMost/Xor only over leaves) must come out solver-safe: the statement's 'negation pushes inwards to re-establish this form'",
]
BOUNDS = {
    "quick": "abc|abt explicit, abc generated, diamonds explicit, conn2/abc generated, closure/ab generated",
    "thorough": "quick + abct, abcdt, abu w3, d3 chains, diamonds generated, conn2/abcd, closure/abc",
}
QUICK = ["abc/explicit", "abt/explicit", "abc/generated", "diamond/explicit", "conn2/abc/generated", "closure/ab/generated", "mix3/abtn/explicit", "empty/ab", "notraw/at+explicit", "notraw/mix3+abt+explicit", "illdef/x", "notraw/d3+ab+explicit", "alt/mix3b+abt+explicit", "wide/1", "wide/2"]
THOROUGH = QUICK + ["abct/explicit", "abcdt/explicit", "abu/explicit/w3", "d3/abc/explicit", "d3/abt/generated", "diamond/generated",
                    "conn2/abcd/generated", "closure/abc/generated", "abtn/explicit"]
MAXCOLS = 14


def shards(tier):
    return families.shards_for(QUICK if tier == "quick" else THOROUGH, 800)


def run_shard(desc, acc, tier):
    fam, lo, hi = desc
    for k, m in enumerate(families.family(fam)[lo:hi], start=lo):
        check_model(m, acc, fam, k)


def expected_safe(a):
    """Solver-safe form that the constructors promise to (re-)establish, judged on the formula as written: positive connectives,
    implications, negations and XNor over safe arguments are safe (negation pushes inwards); AtMost / Xor / negatively signed AtLeast
    are safe only over leaves.  None = no expectation."""
    if a[0] == 'L':
        return True
    if a[0] == 'N':
        return ref.solver_safe_ast(a)
    _, kind, i, args, extra = a
    sub = [expected_safe(x) for x in args]
    if any(x is None for x in sub):
        return None
    if kind in ('AtMost', 'Xor', 'ExactlyOne') or (kind == 'AtLeast' and isinstance(extra, tuple) and extra[1] < 0):
        return True if all(x[0] == 'L' for x in args) else None
    if kind == 'AtLeast' and not isinstance(extra, tuple) and extra < 1:
        return None
    return True if all(sub) else None


def check_model(m, acc, fam, k):
    case = {"fam": fam, "k": k, "ast": m}
    try:
        obj, _ = bind(m, leaf_subclass=(k % 5 == 4))       # every fifth model over leaves of a user-defined subclass of puan.variable
        if is_var(obj) or obj.errors():
            acc.n("skipped_invalid")
            return
        P = obj.to_ge_polyhedron(active=True)
    except BaseException as e:
        acc.violation(None, case, {"what": "construction / errors / to_ge_polyhedron raised", "exc": repr(e), "model": show(m)})
        return
    acc.n("transitions")
    try:
        P_again = obj.to_ge_polyhedron(active=True)
        same = np.asarray(P_again).tolist() == np.asarray(P).tolist() and [v.id for v in P_again.variables] == [v.id for v in P.variables]
    except BaseException as e:
        same = False
    if not same:
        acc.violation(None, case, {"what": "to_ge_polyhedron called twice on one object gives two different systems", "model": show(m)})
        return
    A = np.asarray(P.A, dtype=np.int64)
    b = np.asarray(P.b, dtype=np.int64)
    cols = list(P.A.variables)
    ids = [v.id for v in cols]
    if len(ids) > MAXCOLS:
        acc.n("skipped_too_many_columns")
        return
    leaves = leaves_of(m)
    if any(i not in ids for i in leaves):
        acc.violation(None, case, {"what": "a leaf of the model has no column", "model": show(m), "ids": ids})
        return
    acc.n("models")
    acc.state(structure(obj))
    box = [tuple(v.bounds.as_tuple()) for v in cols]
    wide = any(hi_ - lo_ > 22 for lo_, hi_ in box)
    if wide:
        # a column too wide to enumerate: region alphabet (around 0 and at both extremes, mc/ref.py domain()) for it, every value for
        # the others; both clauses are then decided for every leaf assignment / point of that grid
        doms = [ref.domain(int(lo_), int(hi_)) for lo_, hi_ in box]
        pts = np.array(list(itertools.product(*doms)), dtype=np.int64).reshape(-1, len(box))
        acc.n("models_on_region_grid")
    else:
        pts = ref.box_points(box)
    feas = ref.feasible_mask(A, b, pts)
    acc.n("traces", len(pts))
    acc.obs(A.tolist(), b.tolist(), ids, int(feas.sum()))
    lidx = [ids.index(i) for i in leaves]
    lids = list(leaves)
    # leaf part -> (truth, any feasible completion)
    alphas = list(ref.assignments_dom(leaves) if wide else ref.assignments(leaves))
    if m[0] == 'N':
        tr = {tuple(a[i] for i in lids): ref.truth(m, a) for a in alphas}
    else:
        tr = {tuple(a[i] for i in lids): ref.connective(m, a) for a in alphas}
    leafpart = pts[:, lidx]
    feas_parts = set(map(tuple, leafpart[feas].tolist()))
    safe = solver_safe_obj(obj)
    acc.hist("solver_safe", safe)
    # (only over boolean leaves: with integer atoms next to compounds negate() keeps the exact, un-pushed complement - see C05's wording)
    if m[0] == 'C' and all(bd == (0, 1) for bd in leaves.values()) and expected_safe(m) and not safe:
        acc.violation(None, case, {"what": "constructors did not establish solver-safe form for a formula whose negations should have been pushed inwards",
                                   "model": show(m), "text": obj.to_text().split("\n")})
        return
    if feas.any() and (~feas).any():
        acc.nontriv(m)
    # (a) nothing lost
    lost = [lp for lp, t in tr.items() if t == 1 and lp not in feas_parts]
    if lost:
        acc.violation(None, case, {"what": "a satisfying leaf assignment has no feasible completion in the polyhedron", "model": show(m),
                                   "assignment": dict(zip(lids, lost[0])), "n_lost": len(lost), "columns": list(map(str, ids)),
                                   "A": A.tolist(), "b": b.tolist()})
        return
    spurious = [lp for lp in feas_parts if tr[lp] == 0]
    if safe:
        if spurious:
            acc.violation(None, case, {"what": "solver-safe model: a feasible integer point's leaf part does not satisfy the model",
                                       "model": show(m), "assignment": dict(zip(lids, sorted(spurious)[0])), "n_spurious": len(spurious),
                                       "text": obj.to_text(), "columns": list(map(str, ids)), "A": A.tolist(), "b": b.tolist()})
            return
        # library evaluate agrees on the feasible leaf parts
        for lp in sorted(feas_parts):
            ev = obj.evaluate(dict(zip(lids, lp)))
            acc.n("transitions")
            if ev.as_tuple() != (1, 1):
                acc.violation(None, case, {"what": "solver-safe model: evaluate() of a feasible point's leaf part is not 1", "model": show(m),
                                           "assignment": dict(zip(lids, lp)), "got": ev.as_tuple()})
                return
    else:
        acc.hist("non_solver_safe_with_spurious_points", bool(spurious))
    if k % 3000 == 0:
        acc.sample({"model": show(m), "columns": list(map(str, ids)), "box_points": len(pts), "feasible": int(feas.sum()), "solver_safe": safe})


def replay(case, acc):
    from ..runner import tuplify
    check_model(tuplify(case["ast"]), acc, case["fam"], case["k"])
