"""C04 - connectives have their documented truth functions."""
import itertools
import json

from ..env import np, puan, pg
from .. import ref, families, spaces
from ..ast import bind, leaves_of, show, C, L

ID = "C04"
RULE = ("Mode G: every connective formula (All Any AtLeast(k>=1) AtMost Xor XNor Imply Not; with the explicitly signed AtLeast forms in "
        "the 's' families) of nesting depth <=2 with <=2(3) arguments over boolean leaves, plus the negation closure Not(X), Imply(X,z), "
        "Imply(z,X), XNor(X,z) of every depth-2 X, each built four ways (every third one a fifth way: leaves as instances of a user-defined SUBCLASS of puan.variable) (constructors over puan.variable, constructors over str ids, AtLeast/AtMost fed with one-shot iterators of str ids, "
        "plog.from_json of an independently written JSON document incl. no-type / 'Proposition' / 'Variable' forms, parsed twice from one dictionary object), plus every rule "
        "dictionary of the cicJE grammar; x all 0/1 assignments. oracle = boolean connective semantics written directly on booleans; "
        "non-trivial = distinct formula with a non-constant truth table")
ASSUMPTIONS = [
    "AtLeast(k) is 'at least k' only for k>=1 with the default sign (value<=0 defaults to the negative sign by design); k<=0 is explored with sign given explicitly",
    "formulas rejected by errors() (XNor/Imply over explicitly named compounds contain a node and its negation under one id) are evaluated as well - the statement has no validity precondition and the unchanged library evaluates all of them correctly - and counted separately",
    "within one formula the object is reused across assignments (purity is C09's subject)",
]
BOUNDS = {
    "quick": "conn1/abcd a3 (generated+explicit), conn2/abc (generated, explicit, root), conn1s/abc, closure/ab generated, 3-argument mixed formulas conn3/abc and their closure, all cicJE rules over <=2+2 components",
    "thorough": "quick + conn2/abcd, conn2s/abc, closure/abc, conn2/abc a3",
}
QUICK = ["conn1/abcd/generated/a3", "conn1/abcd/explicit/a3", "conn2/abc/generated", "conn2/abc/explicit", "conn2/abc/root",
         "conn1s/abc/generated/a3", "closure/ab/generated", "conn3/abc/generated", "closure3/abc/generated", "sameid/ab", "cicje"]
THOROUGH = QUICK + ["conn2/abcd/generated", "conn2s/abc/generated", "closure/abc/generated", "closure/ab/root", "conn2/abc/generated/a3"]


# ------------------------------------------------------------------ independent JSON writer (documented format)
def to_json_doc(ast, variant=0):
    k = ast[0]
    if k == 'L':
        d = {"id": ast[1]}
        if (ast[2], ast[3]) != (0, 1):
            d["bounds"] = {"lower": ast[2], "upper": ast[3]}
        if variant % 3 == 1:
            d["type"] = "Proposition"
        elif variant % 3 == 2:
            d["type"] = "Variable"
        return d
    _, kind, i, args, extra = ast
    if kind == 'Imply':
        d = {"type": "Imply", "condition": to_json_doc(args[0], variant), "consequence": to_json_doc(args[1], variant)}
    elif kind == 'Not':
        d = {"type": "Not", "proposition": to_json_doc(args[0], variant)}
    else:
        d = {"type": kind, "propositions": [to_json_doc(a, variant) for a in args]}
        if kind in ('AtLeast', 'AtMost'):
            if isinstance(extra, tuple):
                raise ValueError("explicitly signed AtLeast has no JSON form in the documented format")
            d["value"] = extra
            if kind == 'AtLeast' and variant % 2 == 1:
                del d["type"]          # no type + propositions => AtLeast
                if extra == 1 and variant % 4 == 3:
                    del d["value"]     # default value 1
    if i is not None:
        d["id"] = i
    return d


def has_counting(ast):
    """AtLeast / AtMost somewhere: the constructors that take a list (the 'iter' way differs from 'str' only for them)."""
    if ast[0] != 'C':
        return False
    return ast[1] in ('AtLeast', 'AtMost') or any(has_counting(a) for a in ast[3])


def has_signed(ast):
    if ast[0] != 'C':
        return False
    if ast[1] == 'AtLeast' and isinstance(ast[4], tuple):
        return True
    return any(has_signed(a) for a in ast[3])


# ------------------------------------------------------------------ cicJE grammar
RULE_TYPES = ("REQUIRES_ALL", "REQUIRES_ANY", "ONE_OR_NONE", "FORBIDS_ALL", "REQUIRES_EXCLUSIVELY")


def cicje_cases():
    """Yields (rule dict, expected C-AST)."""
    cons_sets = [("x",), ("x", "y"), ("x", "y", "a")]
    cond_comp_sets = [("a",), ("a", "b")]
    cond_comp_sets2 = [("c",), ("b", "c")]
    rels = ("ALL", "ANY", None)
    for rt in RULE_TYPES:
        for cs in cons_sets:
            cons = {"ruleType": rt, "components": [{"id": i} for i in cs]}
            lv = [L(i) for i in cs]
            exp_cons = {"REQUIRES_ALL": C('All', None, lv), "REQUIRES_ANY": C('Any', None, lv), "ONE_OR_NONE": C('AtMost', None, lv, 1),
                        "FORBIDS_ALL": C('Not', None, [C('Any', None, lv)]), "REQUIRES_EXCLUSIVELY": C('Xor', None, lv)}[rt]
            yield {"consequence": cons}, exp_cons
            yield {"id": "R", "consequence": cons, "condition": {"relation": "ALL", "subConditions": []}}, exp_cons
            for outer in rels:
                for r1 in rels:
                    for c1 in cond_comp_sets:
                        sub1 = {"components": [{"id": i} for i in c1]}
                        if r1:
                            sub1["relation"] = r1
                        e1 = C('All' if r1 in ("ALL", None) else 'Any', None, [L(i) for i in c1])
                        cond = {"subConditions": [sub1]}
                        if outer:
                            cond["relation"] = outer
                        yield {"id": "R", "condition": cond, "consequence": cons}, C('Imply', None, [e1, exp_cons])
                        for r2 in rels:
                            for c2 in cond_comp_sets2:
                                sub2 = {"components": [{"id": i} for i in c2]}
                                if r2:
                                    sub2["relation"] = r2
                                e2 = C('All' if r2 in ("ALL", None) else 'Any', None, [L(i) for i in c2])
                                cond = {"subConditions": [sub1, sub2]}
                                if outer:
                                    cond["relation"] = outer
                                eo = C('All' if outer in ("ALL", None) else 'Any', None, [e1, e2])
                                yield {"condition": cond, "consequence": cons}, C('Imply', None, [eo, exp_cons])


_CIC = None


def cic():
    global _CIC
    if _CIC is None:
        _CIC = list(cicje_cases())
    return _CIC


def shards(tier):
    names = QUICK if tier == "quick" else THOROUGH
    out = []
    for nm in names:
        if nm == "cicje":
            n = len(cic())
            out += [("cicje", lo, min(n, lo + 400)) for lo in range(0, n, 400)]
        else:
            out += families.shards_for([nm], 1500)
    return out


def run_shard(desc, acc, tier):
    fam, lo, hi = desc
    if fam == "cicje":
        for k in range(lo, hi):
            check_cic(k, acc)
        return
    for k, f in enumerate(families.family(fam)[lo:hi], start=lo):
        check_formula(f, acc, fam, k)


def truth_table(obj, ids):
    out = []
    for vals in itertools.product((0, 1), repeat=len(ids)):
        r = obj.evaluate(dict(zip(ids, vals)))
        out.append(r.as_tuple())
    return out


def check_formula(f, acc, fam, k, only_way=None):
    leaves = leaves_of(f)
    ids = list(leaves)
    expect = [ref.connective(f, dict(zip(ids, vals))) for vals in itertools.product((0, 1), repeat=len(ids))]
    ways = ["var", "str"] + (["iter"] if has_counting(f) else []) + ([] if has_signed(f) else ["json"]) + (["sub"] if k % 3 == 1 else [])
    counted = False
    for way in ways:
        if only_way is not None and way != only_way:
            continue
        case = {"fam": fam, "k": k, "ast": f, "way": way}
        try:
            if way == "json":
                text = json.dumps(to_json_doc(f, k))
                doc = json.loads(text)
                obj = pg.from_json(doc)
                # a kept rule document parsed again: the parser may not consume the caller's dictionary; every second formula is
                # evaluated on the SECOND parse of the same dictionary object
                again = pg.from_json(doc)
                if doc != json.loads(text):
                    acc.violation(None, case, {"what": "from_json changed the caller's JSON document", "formula": show(f), "before": text, "after": json.dumps(doc)})
                    continue
                if k % 2 == 1:
                    obj = again
            else:
                obj, _ = bind(f, leaf_as_str=(way in ("str", "iter")), as_iter=(way == "iter"), leaf_subclass=(way == "sub"))
            acc.n("transitions")
            if not hasattr(obj, "errors"):
                # Imply without condition etc. can legally collapse to a variable; not in this space
                acc.violation(None, case, {"what": "constructor returned a non-proposition", "formula": show(f)})
                continue
            errs = obj.errors()
        except BaseException as e:
            acc.violation(None, case, {"what": "construction / errors() raised", "exc": repr(e), "formula": show(f)})
            continue
        if errs:
            acc.n("invalid_but_evaluated_" + way)
        if not counted:
            acc.n("formulas")
            acc.state(f)
            counted = True
            if len(set(expect)) > 1:
                acc.nontriv(f)
        try:
            got = truth_table(obj, ids)
        except BaseException as e:
            acc.violation(None, case, {"what": "evaluate raised", "exc": repr(e), "formula": show(f)})
            continue
        acc.n("traces", len(got))
        acc.n("transitions", len(got))
        acc.obs(got)
        want = [(e, e) for e in expect]
        if got != want:
            j = next(i for i in range(len(got)) if got[i] != want[i])
            alpha = dict(zip(ids, list(itertools.product((0, 1), repeat=len(ids)))[j]))
            acc.violation(classify(f), case, {"what": "truth table differs from the connective's boolean semantics", "formula": show(f),
                                              "first_bad_assignment": alpha, "expected": expect[j], "got": got[j],
                                              "n_bad": sum(1 for a, b_ in zip(got, want) if a != b_)})
        acc.hist("tt_ones", sum(expect))
    if counted and k % 4000 == 0:
        acc.sample({"formula": show(f), "leaves": ids, "expected_truth_table": expect})


def classify(f):
    return None


def check_cic(k, acc):
    rule, exp = cic()[k]
    case = {"fam": "cicje", "k": k}
    leaves = leaves_of(exp)
    ids = list(leaves)
    expect = [ref.connective(exp, dict(zip(ids, vals))) for vals in itertools.product((0, 1), repeat=len(ids))]
    try:
        obj = pg.Imply.from_cicJE(json.loads(json.dumps(rule)))
        acc.n("transitions")
        errs = obj.errors()
    except BaseException as e:
        acc.violation(None, case, {"what": "from_cicJE raised", "exc": repr(e), "rule": rule})
        return
    if errs:
        acc.n("skipped_invalid_cicje")
        return
    acc.n("formulas")
    acc.state(("cic", k))
    if len(set(expect)) > 1:
        acc.nontriv(("cic", k))
    try:
        got = truth_table(obj, ids)
    except BaseException as e:
        acc.violation(None, case, {"what": "evaluate raised", "exc": repr(e), "rule": rule})
        return
    acc.n("traces", len(got))
    acc.n("transitions", len(got))
    acc.obs(got)
    if got != [(e, e) for e in expect]:
        acc.violation(None, case, {"what": "cicJE rule truth table differs", "rule": rule, "expected_formula": show(exp),
                                   "expected": expect, "got": got})
    if k % 300 == 0:
        acc.sample({"cicJE": rule, "expected_formula": show(exp)})


def replay(case, acc):
    from ..runner import tuplify
    if case["fam"] == "cicje":
        check_cic(case["k"], acc)
    else:
        check_formula(tuplify(case["ast"]), acc, case["fam"], case["k"], only_way=case.get("way"))
