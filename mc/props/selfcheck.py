"""Setup sanity step: imports, reference-vs-reference cross-check on a tiny space, one real call per layer."""
import itertools

from ..env import np, puan, pg, pnd, cc
from .. import ref, families
from ..ast import bind, leaves_of

ID = "SELFCHECK"
RULE = "setup self check (not a property)"
ASSUMPTIONS = []


def shards(tier):
    return [("ref", 0)]


def run_shard(desc, acc, tier):
    # truth() and connective() agree on the AtLeast translation of a few connectives
    from ..ast import C, L, N
    a, b = L('a'), L('b')
    pairs = [(C('All', None, [a, b]), N(None, 1, 2, [a, b])), (C('Any', None, [a, b]), N(None, 1, 1, [a, b])),
             (C('AtMost', None, [a, b], 1), N(None, -1, -1, [a, b]))]
    for f, n in pairs:
        for alpha in ref.assignments(leaves_of(f)):
            assert ref.connective(f, alpha) == ref.truth(n, alpha)
            obj, _ = bind(f)
            assert obj.evaluate(alpha).as_tuple() == (ref.truth(n, alpha),) * 2
            acc.n("traces"); acc.n("transitions"); acc.state((f, tuple(alpha.items()))); acc.nontriv((f, tuple(alpha.items())))
    assert len(families.family("abc/explicit")) > 1000
    acc.sample({"ok": True})
