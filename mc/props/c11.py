"""C11 - polyhedron reduction preserves the integer solution set."""
from ..env import np, puan, pnd
from .. import ref, mspace, families
from ..ast import bind, show

ID = "C11"
RULE = ("Mode M: EVERY system [b|A] of the named spaces (rows x columns, full coefficient / constant alphabets incl. |coefficient|>1, every "
        "combination of per-column bounds from a menu with boolean, integer, negative and degenerate boxes) plus every asserted polyhedron "
        "of the abc/explicit model family (big-M rows). Executed: reducable_rows, reducable_columns_approx, reducable_rows_and_columns, "
        "reduce(rows, columns), and the same edge again on the result. oracle = brute-force integer solution set S of the box: flagged "
        "rows hold on the whole box, forced columns have that value on all of S, the reduced system's solution set equals the projection "
        "of S on the kept columns (empty stays empty), variables/index describe the kept columns/rows. non-trivial = distinct system "
        "where something was reduced and S is neither empty nor the whole box")
ASSUMPTIONS = [
    "variable bounds lie within the library's default integer range (stated in the property)",
    "brute force over the box is the oracle (numpy matmul, int64)",
]
BOUNDS = {
    "quick": "1x1 1x2 1x3 2x1 2x2 3x2q 1x2w big (see mc/mspace.py for alphabets) + polyhedra of abc/explicit models",
    "thorough": "quick + 2x2b 2x3 3x2 2x2T 1x3T 2x3T 3x3T + polyhedra of abt/explicit, diamond/explicit",
}
QUICK = ["1x1", "1x2", "1x3", "2x1", "2x2", "3x2q", "1x2w", "big", "narrow"]
THOROUGH = QUICK + ["2x2p", "2x3q", "2x2b", "2x3", "3x2", "2x2T", "1x3T", "2x3T", "3x3T"]
QUICK_MODELS = ["abc/explicit"]
THOROUGH_MODELS = ["abc/explicit", "abt/explicit", "diamond/explicit"]


def shards(tier):
    out = [("M",) + s for s in mspace.shards_for(QUICK if tier == "quick" else THOROUGH, 2500)]
    out += [("P",) + s for s in families.shards_for(QUICK_MODELS if tier == "quick" else THOROUGH_MODELS, 600)]
    return out


def run_shard(desc, acc, tier):
    kind, name, lo, hi = desc
    if kind == "M":
        for idx in range(lo, hi):
            M, bds = mspace.case_at(name, idx)
            check(mspace.polyhedron(M, bds, idx % 3), acc, {"kind": "M", "space": name, "idx": idx})
            if idx % 8 == 0:
                # the same matrix over a box with EQUAL HASH SUMS ((lo+1, hi-1) for every wide enough column) right afterwards: anything
                # remembered under a key derived from hash(variable) is wrong for the twin
                tw = [(lo_ + 1, hi_ - 1) if hi_ - lo_ >= 2 else (lo_, hi_) for (lo_, hi_) in bds]
                if tw != list(bds):
                    check(mspace.polyhedron(M, tw), acc, {"kind": "M", "space": name, "idx": idx, "twin": True})
    else:
        for k, m in enumerate(families.family(name)[lo:hi], start=lo):
            obj, _ = bind(m)
            if obj.errors():
                continue
            P = obj.to_ge_polyhedron(active=True)
            if P.shape[1] - 1 > 8:
                acc.n("skipped_wide_polyhedron")
                continue
            check(P, acc, {"kind": "P", "fam": name, "k": k, "ast": m})


def mspace_clone(P):
    variables = [puan.variable(v.id, tuple(int(x) for x in v.bounds.as_tuple())) for v in P.variables]
    return pnd.ge_polyhedron(np.asarray(P, dtype=np.int64).copy(), variables=variables, index=list(P.index))


def sol_set(P):
    """(bounds, points, feasible mask) by brute force."""
    bds = [tuple(v.bounds.as_tuple()) for v in P.variables[1:]]
    pts = ref.box_points(bds)
    A = np.asarray(P, dtype=np.int64)[:, 1:]
    b = np.asarray(P, dtype=np.int64)[:, 0]
    return bds, pts, ref.feasible_mask(A, b, pts), A, b


def check(P, acc, case, depth=0):
    desc = {"matrix": np.asarray(P).tolist(), "bounds": [tuple(v.bounds.as_tuple()) for v in P.variables[1:]]}
    bds, pts, feas, A, b = sol_set(P)
    S = pts[feas]
    acc.n("traces")
    if depth == 0:
        acc.n("systems")
        acc.state((desc["matrix"], desc["bounds"]))
    try:
        rr = np.asarray(P.reducable_rows()).astype(bool)
        rc = np.asarray(P.reducable_columns_approx(), dtype=float)
        rows, cols = P.reducable_rows_and_columns()
        rows = np.asarray(rows)
        cols = np.asarray(cols, dtype=float)
        R = P.reduce(rows, cols)
    except BaseException as e:
        acc.violation(None, case, dict(desc, what="reduction API raised", exc=repr(e), depth=depth))
        return
    if depth == 0 and case.get("idx", 0) % 2 == 0:
        # the same queries in the opposite order on a second, identical object (every second system)
        try:
            Q = mspace_clone(P)
            rows2, cols2 = Q.reducable_rows_and_columns()
            rc2 = np.asarray(Q.reducable_columns_approx(), dtype=float)
            rr2 = np.asarray(Q.reducable_rows()).astype(bool)
        except BaseException as e:
            acc.violation(None, case, dict(desc, what="reduction API raised in the reverse-order pass", exc=repr(e)))
            return
        acc.n("transitions", 3)
        same = (np.asarray(rows2).tolist() == rows.tolist() and np.array_equal(np.asarray(cols2, dtype=float), cols, equal_nan=True)
                and np.array_equal(rc2, rc, equal_nan=True) and rr2.tolist() == rr.tolist())
        if not same:
            acc.violation(None, case, dict(desc, what="the reduction queries answer differently when asked in another order (history)"))
            return
    acc.n("transitions", 4)
    acc.obs(rr.tolist(), np.nan_to_num(rc, nan=-99).tolist(), rows.tolist(), np.nan_to_num(cols, nan=-99).tolist(), np.asarray(R).tolist())
    # 1. rows flagged reducible hold on every box point
    if len(pts):
        lhs = pts @ A.T
        for i in np.nonzero(rr)[0]:
            if not (lhs[:, i] >= b[i]).all():
                acc.violation(None, case, dict(desc, what="reducable_rows flags a row that some in-bounds point violates", row=int(i), depth=depth))
                return
    # 2. forced columns (approx) take that value in every solution
    for j in np.nonzero(~np.isnan(rc))[0]:
        if len(S) and not (S[:, j] == rc[j]).all():
            acc.violation(None, case, dict(desc, what="reducable_columns_approx forces a column that takes another value in some solution",
                                           column=int(j), forced=float(rc[j]), depth=depth))
            return
    # 3. full reduction
    if rows.shape != (A.shape[0],) or cols.shape != (A.shape[1],):
        acc.violation(None, case, dict(desc, what="reducable_rows_and_columns returned vectors of wrong length", rows=rows.tolist(), depth=depth))
        return
    forced = ~np.isnan(cols)
    kept = np.nonzero(~forced)[0]
    for j in np.nonzero(forced)[0]:
        if len(S) and not (S[:, j] == cols[j]).all():
            acc.violation(None, case, dict(desc, what="reducable_rows_and_columns forces a column that takes another value in some solution",
                                           column=int(j), forced=float(cols[j]), depth=depth))
            return
    want_vars = [P.variables[0]] + [P.variables[1 + j] for j in kept]
    got_vars = list(R.variables)
    if [(v.id, v.bounds.as_tuple()) for v in got_vars] != [(v.id, v.bounds.as_tuple()) for v in want_vars]:
        acc.violation(None, case, dict(desc, what="variables of the reduced polyhedron are not the kept columns' variables in order",
                                       got=[str(v.id) for v in got_vars], want=[str(v.id) for v in want_vars], depth=depth))
        return
    keep_rows = np.nonzero(np.asarray(rows) == 0)[0]
    want_index = [P.index[i].id for i in keep_rows]
    if [x.id for x in R.index] != want_index or R.shape != (len(keep_rows), 1 + len(kept)):
        acc.violation(None, case, dict(desc, what="index/shape of the reduced polyhedron does not describe the kept rows",
                                       got=[str(x.id) for x in R.index], want=list(map(str, want_index)), shape=list(R.shape), depth=depth))
        return
    proj = set(map(tuple, S[:, kept].tolist()))
    bds2, pts2, feas2, _, _ = sol_set(R)
    S2 = set(map(tuple, pts2[feas2].tolist()))
    if S2 != proj:
        acc.violation(None, case, dict(desc, what="solution set of the reduced polyhedron != projection of the original solution set",
                                       rows=rows.tolist(), columns=[None if np.isnan(c) else float(c) for c in cols],
                                       reduced=np.asarray(R).tolist(), only_in_reduced=sorted(S2 - proj)[:3], lost=sorted(proj - S2)[:3],
                                       n_original_solutions=int(len(S)), depth=depth))
        return
    if depth == 0 and case.get("idx", 0) % 4 == 1 and (forced.any() or rr.any()):
        # the two halves of the reduction on their own, every fourth system: reduce(rows_vector=reducable_rows()) only (the rows of
        # reducable_rows_and_columns are reducible only AFTER the substitution, so they are not used here), reduce(columns_vector=...) only
        try:
            Rr = mspace_clone(P).reduce(rows_vector=rr.astype(int))
            Rc = mspace_clone(P).reduce(columns_vector=cols)
        except BaseException as e:
            acc.violation(None, case, dict(desc, what="reduce with one vector only raised", exc=repr(e)))
            return
        acc.n("transitions", 2)
        _, p_r, f_r, _, _ = sol_set(Rr)
        _, p_c, f_c, _, _ = sol_set(Rc)
        if set(map(tuple, p_r[f_r].tolist())) != set(map(tuple, S.tolist())):
            acc.violation(None, case, dict(desc, what="dropping only the rows reported by reducable_rows changes the solution set", rows=rr.astype(int).tolist(), reduced=np.asarray(Rr).tolist()))
            return
        if set(map(tuple, p_c[f_c].tolist())) != proj:
            acc.violation(None, case, dict(desc, what="substituting only the forced columns does not give the projection of the solution set",
                                           columns=[None if np.isnan(c) else float(c) for c in cols], reduced=np.asarray(Rc).tolist()))
            return
    if depth == 0:
        acc.hist("solutions", "empty" if len(S) == 0 else ("whole box" if len(S) == len(pts) else "proper"))
        acc.hist("reduced_something", bool(forced.any() or rows.any()))
        if (forced.any() or rows.any()) and 0 < len(S) < len(pts):
            acc.nontriv((desc["matrix"], desc["bounds"]))
        if acc.counts["systems"] % 20000 == 1:
            acc.sample(dict(desc, rows=rows.tolist(), columns=[None if np.isnan(c) else float(c) for c in cols], reduced=np.asarray(R).tolist(),
                            n_solutions=int(len(S))))
    # the edge again from the (non-initial) reduced state
    if depth == 0 and R.shape[0] > 0 and R.shape[1] > 1:
        check(R, acc, case, depth=1)


def replay(case, acc):
    from ..runner import tuplify
    if case["kind"] == "M":
        M, bds = mspace.case_at(case["space"], case["idx"])
        if case.get("twin"):
            check(mspace.polyhedron(M, bds), acc, dict(case, twin=False))
            bds = [(lo_ + 1, hi_ - 1) if hi_ - lo_ >= 2 else (lo_, hi_) for (lo_, hi_) in bds]
            check(mspace.polyhedron(M, bds), acc, case)
            return
        check(mspace.polyhedron(M, bds, case["idx"] % 3), acc, case)
    else:
        obj, _ = bind(tuplify(case["ast"]))
        check(obj.to_ge_polyhedron(active=True), acc, case)
