"""C01 - logic-to-polyhedron encoding agrees with evaluation on every assignment."""
from ..env import np, puan, pg
from .. import ref, families
from ..ast import bind, leaves_of, compounds_of, show, is_var, walk, arith_eval_obj

ID = "C01"
RULE = ("Mode G: every validated raw model of the families and every connective formula object built by the real constructors (no pre-fixed compound) -> to_ge_polyhedron(active=True/False) once, "
        "then every in-bounds leaf assignment (region alphabet for 16-bit leaves) -> evaluate_propositions; oracle: rows of the "
        "asserted system hold at the extended assignment <=> evaluated top == 1, rows of the un-asserted system always hold; "
        "evaluated constants also compared with the reference truth function; columns looked up by id and must carry the model's "
        "bounds. Every fourth model runs all its assignments on ONE receiver with ONE dictionary object updated in place; every fifth builds its polyhedra over leaves of a user-defined subclass of puan.variable; leaves wider than 16 bits (25 / 31 bits) by region alphabet. non-trivial = distinct model with both true and false assignments")
ASSUMPTIONS = [
    "models are filtered by errors()==[] (C10 guards that filter)",
    "reduced=True is outside the statement",
    "16-bit leaves are covered by a region alphabet (an argument about the reference), not by full enumeration",
    "puan_rspy (Rust encoder) is exercised as a black box through the Python layer",
]
BOUNDS = {
    "quick": "abc|abt|abct explicit, abc generated/root, diamonds explicit+generated, wide/1, mix3; d=2,w=2; connective objects conn2/abc and the negation closure over ab (real Xor/XNor/Imply/Not structures, 3-4 levels)",
    "thorough": "quick + abcdt, abtn, w=3 families on 3 leaves, depth-3 chains",
}
QUICK = ["abc/explicit", "abt/explicit", "abct/explicit", "abc/generated", "abc/root", "diamond/explicit", "diamond/generated", "wide/1", "wide/2", "mix3/abtn/explicit", "d3/abc/explicit", "empty/ab", "illdef/x", "alt/mix3b+abt+explicit",
         "conn2/abc/generated", "closure/ab/generated"]
THOROUGH = QUICK + ["abcdt/explicit", "abtn/explicit", "abu/explicit/w3", "abt/explicit/w3", "d3/abc/explicit", "d3/abt/generated",
                    "abt/generated", "abt/root", "abcu/explicit", "conn2/abcd/generated", "conn2s/abc/generated", "closure/abc/generated"]


def shards(tier):
    return families.shards_for(QUICK if tier == "quick" else THOROUGH, 900)


def run_shard(desc, acc, tier):
    fam, lo, hi = desc
    seen = []
    for k, m in enumerate(families.family(fam)[lo:hi], start=lo):
        dg = check_model(m, acc, fam, k)
        if dg is not None:
            seen.append((k, m, dg))
    # the same conversions again in REVERSE order: the system produced for a model must not depend on which models were converted before
    # (neighbouring models differ in one value / one bound only, e.g. -1 vs -2, the pairs that collide under coarse hashing)
    for k, m, dg in reversed(seen):
        try:
            now = digest(polyhedra(m))
        except BaseException as e:
            acc.violation(None, {"fam": fam, "k": k, "ast": m, "lo": lo, "reverse": True}, {"what": "to_ge_polyhedron raised in the reverse pass", "exc": repr(e)})
            continue
        acc.n("transitions", 2)
        if now != dg:
            acc.violation(None, {"fam": fam, "k": k, "ast": m, "lo": lo, "reverse": True},
                          {"what": "the system produced for a model depends on which other models were converted before (history)", "model": show(m),
                           "first_pass": dg, "reverse_pass": now})


def digest(polys):
    (A1, b1, ids1, _v1, _P1), (A0, b0, ids0, _v0, _P0) = polys
    return repr((A1.tolist(), b1.tolist(), list(map(str, ids1)), A0.tolist(), b0.tolist(), list(map(str, ids0))))


def polyhedra(m, sub=False):
    """(A, b, ids, vars) for active True and False from a fresh object (sub: leaves as instances of a subclass of puan.variable)."""
    out = []
    for active in (True, False):
        obj, _ = bind(m, leaf_subclass=sub)
        P = obj.to_ge_polyhedron(active=active)
        out.append((np.asarray(P.A, dtype=np.int64), np.asarray(P.b, dtype=np.int64), [v.id for v in P.A.variables],
                    list(P.A.variables), P))
    return out


def check_model(m, acc, fam, k, only_alpha=None):
    obj, b = bind(m)
    case0 = {"fam": fam, "k": k, "ast": m}
    try:
        errs = obj.errors()
    except BaseException as e:
        acc.violation(None, case0, {"what": "errors() raised", "exc": repr(e)})
        return
    if errs:
        acc.n("skipped_invalid")
        return
    acc.n("models")
    acc.state(m)
    leaves = leaves_of(m)
    raw = (m[0] == 'N')
    if raw:
        comps = compounds_of(m)
        idof = {c: b.memo[c].id for c in comps}
        comp_ids = [idof[c] for c in comps]
    else:
        # connective formula: the real structure (Xor/XNor/Imply/Not expand to several AtLeast nodes) defines the node set
        if is_var(obj):
            acc.n("skipped_invalid")
            return
        comp_ids = [o.id for o in walk(obj).values() if not is_var(o)]
        if any(o.bounds.constant is not None for o in walk(obj).values() if not is_var(o)):
            acc.n("skipped_prefixed")
            return
    top_id = obj.id
    try:
        (A1, b1, ids1, vars1, P1), (A0, b0, ids0, vars0, P0) = polyhedra(m, sub=(k % 5 == 3))      # every fifth model over subclass leaves
    except BaseException as e:
        acc.violation(None, case0, {"what": "to_ge_polyhedron raised", "exc": repr(e), "model": show(m)})
        return
    acc.n("transitions", 2)
    acc.obs(A1.tolist(), b1.tolist(), ids1, A0.tolist(), b0.tolist(), ids0)
    dg_ = digest(((A1, b1, ids1, vars1, P1), (A0, b0, ids0, vars0, P0)))
    # structural: support column first, column variables carry the model's bounds, every id of the model is a column (top only if not asserted)
    want_bounds = {i: bd for i, bd in leaves.items()}
    for ci in comp_ids:
        want_bounds[ci] = (0, 1)
    for (ids, vars_, P, label) in ((ids1, vars1, P1, "active"), (ids0, vars0, P0, "passive")):
        sv = P.variables[0]
        if not (sv.id == 0 and sv.bounds.as_tuple() == (1, 1)):
            acc.violation(None, case0, {"what": "first variable is not the support vector variable", "model": show(m)})
            return
        if len(set(ids)) != len(ids) or any(i not in want_bounds for i in ids):
            acc.violation(None, case0, {"what": f"{label}: column ids not a duplicate-free subset of the model's ids", "ids": ids, "model": show(m)})
            return
        missing = set(want_bounds) - set(ids) - ({top_id} if label == "active" else set())
        if missing:
            acc.violation(None, case0, {"what": f"{label}: model ids without a column", "missing": sorted(map(str, missing)), "model": show(m)})
            return
        for i, v in zip(ids, vars_):
            if tuple(v.bounds.as_tuple()) != tuple(want_bounds[i]):
                acc.violation(None, case0, {"what": f"{label}: column variable bounds differ from the model's", "id": str(i),
                                            "got": v.bounds.as_tuple(), "want": want_bounds[i], "model": show(m)})
                return
    tv = set()
    # every fourth model: ONE receiver and ONE interpretation dictionary object, updated in place from assignment to assignment (the loop
    # a caller writes when enumerating assignments); only leaves are named, so the receiver is not changed by the calls
    shared = (k % 4 == 1)
    recv, interp = (bind(m)[0], {}) if shared else (None, None)
    if shared:
        only_alpha = None          # a replay of a shared-mode case re-runs the whole history of this model
    for alpha in ref.assignments_dom(leaves):
        if only_alpha is not None and alpha != only_alpha:
            continue
        obj = recv if shared else bind(m)[0]
        case = dict(case0, alpha=alpha, shared=shared)
        acc.n("traces")
        acc.n("transitions")
        try:
            if shared:
                interp.clear()
                interp.update(alpha)
                res = obj.evaluate_propositions(interp)
            else:
                res = obj.evaluate_propositions(alpha)
        except BaseException as e:
            acc.violation(None, case, {"what": "evaluate_propositions raised", "exc": repr(e), "model": show(m)})
            continue
        if raw:
            table = {}
            expect = ref.truth(m, alpha, None, table)
            items = [((node[1] if node[0] == 'L' else idof[node]), v) for node, v in table.items()]
        else:
            expect = ref.connective(m, alpha)
            memo = {}
            o_ref, _ = bind(m)
            top_arith = arith_eval_obj(o_ref, alpha, memo)
            items = [(o.id, memo[id(o)]) for o in walk(o_ref).values()]
            if top_arith != expect:
                acc.violation(None, case, {"what": "structure built by the constructors does not have the connective's truth value (C04 territory)",
                                           "model": show(m), "expected": expect, "structure_value": top_arith})
                continue
        vals = {}
        ok = True
        for i, v in items:
            got = res.get(i)
            if got is None or got.as_tuple() != (v, v):
                acc.violation(None, case, {"what": "evaluated constant differs from the reference truth function (C03 territory, reported here "
                                                   "so that C01 does not inherit it silently)", "id": str(i), "expected": v,
                                           "got": None if got is None else got.as_tuple(), "model": show(m)})
                ok = False
                break
            vals[i] = v
        if not ok:
            continue
        tv.add(expect)
        x1 = np.array([vals[i] for i in ids1], dtype=np.int64)
        x0 = np.array([vals[i] for i in ids0], dtype=np.int64)
        f1 = bool((A1 @ x1 >= b1).all())
        f0 = bool((A0 @ x0 >= b0).all())
        acc.obs(f1, f0)
        acc.hist("asserted_feasible", f1)
        if f1 != bool(expect):
            acc.violation(None, case, {"what": "asserted system feasibility at the extended assignment != evaluated top",
                                       "model": show(m), "top": expect, "rows_hold": f1, "x": dict(zip(map(str, ids1), x1.tolist())),
                                       "A": A1.tolist(), "b": b1.tolist()})
            continue
        if not f0:
            acc.violation(None, case, {"what": "un-asserted system infeasible at the extended assignment", "model": show(m),
                                       "x": dict(zip(map(str, ids0), x0.tolist())), "A": A0.tolist(), "b": b0.tolist()})
            continue
        if acc.counts["traces"] % 20000 == 1:
            acc.sample({"model": show(m), "alpha": alpha, "top": expect, "columns": [str(i) for i in ids1], "A": A1.tolist(), "b": b1.tolist()})
    if len(tv) > 1:
        acc.nontriv(m)
    return dg_


def replay(case, acc):
    from ..runner import tuplify
    if case.get("reverse"):
        run_shard((case["fam"], case["lo"], case["k"] + 1), acc, "quick")
        return
    check_model(tuplify(case["ast"]), acc, case["fam"], case["k"], only_alpha=case.get("alpha"))
