"""C09 - queries are pure and results are independent of call history (Mode H)."""
import itertools
import json
import os
import pickle
import sys

from ..env import np, puan, pg, cc, pnd
from .. import cfgspace
from ..ast import structure, is_var, walk
from ..fingerprint import fingerprint, hidden_state, diff, memo_state, memo_changed

ID = "C09"
RULE = ("Mode H: a world of live objects in ONE process - model A=All(B,Q) with B=Any(a,b) one shared object also under Q=AtMost(1,[c,B]) and "
        "under a second model N=Any(B,d); the same shape with generated ids; configurator pairs that are == and hash-equal but differently "
        "defined (rule R AtMost 1 vs AtMost 2: hash(-1)==hash(-2); leaf bounds (0,3) vs (1,2)); a configurator with defaulted rules - and a "
        "menu of ~250 public API calls (incl. calls whose receiver is an object the library derived by assume / reduce, a negate-derived object whose child list no constructor sorted, a model with leaves fixed to non-zero constants, text forms of the configurators) (incl. the built-in solver, whose answers are only compared with the pristine process) (evaluate / evaluate_propositions / assume with total, partial, sub-proposition-naming and "
        "own-id-naming interpretations, reduce, negate, errors, to_json, to_b64, to_text, flatten, variables, flags, to_ge_polyhedron, solve, "
        "ge_polyhedron, default_prios, leafs, select, add, ...). EVERY call sequence of length <=2 (thorough: <=3 via state de-duplication) is "
        "replayed from scratch in a child forked from a pristine parent. invariants: (1) every call in every reachable state returns what "
        "it returns in a pristine process; (2) no call changes the deep fingerprint of any object of the world (caches may fill: hidden state). "
        "Second mode: history = the ORDER in which different models of a family are queried in one process (forwards, then backwards, fresh "
        "objects each time; neighbours are equal under __eq__ and collide under __hash__): every query must repeat its first answer. "
        "non-trivial = distinct (history, call) whose history contains a call that filled a cache or returned a derived object")
ASSUMPTIONS = [
    "fork() isolation: the parent imports the library and executes nothing; every path runs in its own child",
    "cache fill levels (lru caches, per-instance memo attributes named _cached_*) are hidden state, not object state: they may change, observations may not",
    "a transition matching an open known finding is reported as KNOWN-FINDING and its target state is not expanded",
]
BOUNDS = {"quick": "all sequences of length <=2 over the full menu", "thorough": "length <=3: all 2-sequences, third call from every distinct depth-2 state"}


# ---------------------------------------------------------------- world
def build_world():
    B = pg.Any("a", "b", variable="B")
    Q = pg.AtMost(1, ["c", B], variable="Q")
    M = pg.All(B, Q, variable="A")
    N = pg.Any(B, "d", variable="N")
    Bg = pg.Any("a", "b")
    G = pg.All(Bg, pg.AtMost(1, ["c", Bg]))
    K1 = cc.StingyConfigurator(pg.AtMost(1, ["a", "b", "c"], variable="R"), id="cfg")
    K2 = cc.StingyConfigurator(pg.AtMost(2, ["a", "b", "c"], variable="R"), id="cfg")
    J1 = cc.StingyConfigurator(pg.AtLeast(2, [puan.variable("x", (0, 3)), "y"], variable="R"), id="cfj")
    J2 = cc.StingyConfigurator(pg.AtLeast(2, [puan.variable("x", (1, 2)), "y"], variable="R"), id="cfj")
    K3 = cc.StingyConfigurator(cc.Xor("x", "y", "z", default=["z"], variable="X"), cc.Any("a", "b", default=["a"], variable="Y"), id="k3")
    # an object that did NOT come straight out of a constructor: negate() with the negation pushed inwards (its child list is assigned
    # by negate(), not sorted by a constructor), over an atom and a compound whose id sorts after the atom's
    NG = pg.Any("a", pg.All("x", "y", variable="b"), variable="NGsrc").negate()
    # a model with leaves fixed to non-zero constants by their bounds (reduce / assume have real work to do on it without any argument)
    F = pg.All(pg.AtLeast(2, ["a", "b", puan.variable("k", (1, 1))], variable="FB"),
               pg.AtLeast(4, ["x", "y", puan.variable("t", (3, 3))], variable="FC"), "z", variable="F")
    # a compound with an explicit id whose OWN variable is fixed by its construction bounds (what assume / reduce results look like too)
    PF = pg.All(pg.Any("a", "b", variable=puan.variable("PB", (1, 1))), "c", variable="PFtop")
    return {"M": M, "N": N, "G": G, "K1": K1, "K2": K2, "J1": J1, "J2": J2, "K3": K3, "NG": NG, "F": F, "PF": PF}


INTERPS = {
    "total": {"a": 1, "b": 0, "c": 1, "d": 0},
    "partial": {"a": 1},
    "range": {"a": (0, 1), "c": puan.Bounds(1, 1)},
    "B=1": {"B": 1, "c": 1},
    "B=0": {"B": 0},
    "B=(0,1)": {"B": (0, 1), "a": 1},
    "own=0": None,   # filled with the object's own id
    "empty": {},
}
CFG_INTERPS = {"total": {"a": 1, "b": 0, "c": 0, "x": 1, "y": 0, "z": 0}, "rule=1": None, "partial": {"a": 1}}


def canon(r):
    """Deterministic, address-free rendering of a call result."""
    if r is None or isinstance(r, (bool, int, str)):
        return r
    if isinstance(r, (np.integer,)):
        return int(r)
    if isinstance(r, float):
        return repr(r)
    if isinstance(r, puan.Bounds):
        return ("Bounds", int(r.lower), int(r.upper))
    if isinstance(r, np.ndarray):
        out = ("nd", type(r).__name__, np.asarray(r).tolist())
        if hasattr(r, "variables") and r.variables is not None:
            out += (tuple((type(v).__name__, repr(getattr(v, "id", v)), getattr(getattr(v, "bounds", None), "as_tuple", lambda: None)()) for v in np.asarray(r.variables).tolist()),)
        if hasattr(r, "default_prio_vector"):
            out += (np.asarray(r.default_prio_vector).tolist(),)
        return out
    if is_var(r):
        return ("var", repr(r.id), tuple(map(int, r.bounds.as_tuple())))
    if isinstance(r, pg.AtLeast):
        return ("prop", type(r).__name__, structure(r))
    if isinstance(r, dict):
        return ("dict",) + tuple(sorted(((repr(k), canon(v)) for k, v in r.items())))
    if isinstance(r, (list, tuple)):
        return (type(r).__name__,) + tuple(canon(x) for x in r)
    if isinstance(r, (set, frozenset)):
        return ("set",) + tuple(sorted((canon(x) for x in r), key=repr))
    if hasattr(r, "__iter__"):
        return ("iter",) + tuple(canon(x) for x in r)
    return ("repr", repr(r))


def ops_menu():
    """[(name, target, callable(world) -> result)]  ordered simplest first."""
    ops = []

    def add(name, fn):
        ops.append((name, fn))

    for X in ("M", "N", "G"):
        for iname, interp in INTERPS.items():
            def mk(meth, X=X, iname=iname, interp=interp):
                def named(w):
                    return dict(interp) if interp is not None else {w[X].id: 0}

                def f(w):
                    return getattr(w[X], meth)(named(w))
                f.named = named
                return f
            if X == "G" and iname.startswith("B"):
                continue
            add(f"{X}.evaluate[{iname}]", mk("evaluate"))
            add(f"{X}.evaluate_propositions[{iname}]", mk("evaluate_propositions"))
            add(f"{X}.assume[{iname}]", mk("assume"))
        add(f"{X}.reduce", lambda w, X=X: w[X].reduce())
        add(f"{X}.negate", lambda w, X=X: w[X].negate())
        add(f"{X}.errors", lambda w, X=X: [str(e) for e in w[X].errors()])
        add(f"{X}.to_json", lambda w, X=X: json.dumps(w[X].to_json(), sort_keys=True))
        add(f"{X}.to_b64", lambda w, X=X: w[X].to_b64())
        add(f"{X}.to_text", lambda w, X=X: w[X].to_text())
        add(f"{X}.flatten", lambda w, X=X: w[X].flatten())
        add(f"{X}.variables", lambda w, X=X: w[X].variables)
        add(f"{X}.flags", lambda w, X=X: (w[X].is_tautology, w[X].is_contradiction, w[X].equation_bounds))
        add(f"{X}.to_ge_polyhedron[T]", lambda w, X=X: w[X].to_ge_polyhedron(active=True))
        add(f"{X}.to_ge_polyhedron[F]", lambda w, X=X: w[X].to_ge_polyhedron(active=False))
        add(f"{X}.solve", lambda w, X=X: list(w[X].solve([{"a": 1}, {"c": 1, "a": -1}], solver=cfgspace.Capture("exact"))))
        add(f"{X}.to_short", lambda w, X=X: w[X].to_short())
        add(f"{X}.solve[builtin]", lambda w, X=X: list(w[X].solve([{"a": 1}, {"c": 1, "a": -1}])))
        add(f"{X}.solve[builtin,reduce]", lambda w, X=X: list(w[X].solve([{"a": 1}], try_reduce_before=True)))
        add(f"{X}.to_ge_polyhedron[T,reduced]", lambda w, X=X: w[X].to_ge_polyhedron(active=True, reduced=True))
    # calls whose receiver is an object DERIVED by the library (the result of assume / reduce), naming a sub-proposition there: whatever
    # such a call does to the derived object (finding D3), the source and every other object of the world must stay as they are
    def derived(X, first, then):
        def f(w):
            r = first(w[X])
            return then(r) if isinstance(r, pg.AtLeast) else ("collapsed", r)
        return f
    for X, leaf in (("M", {"c": 1}), ("N", {"d": 0}), ("G", {"c": 1})):
        sub = {"B": 0} if X != "G" else None
        for fname, first in (("assume[leaf]", lambda o, leaf=leaf: o.assume(dict(leaf))), ("assume[empty]", lambda o: o.assume({})), ("reduce", lambda o: o.reduce())):
            def then_eval(r, sub=sub):
                d = dict(sub) if sub is not None else {next(p.id for p in r.propositions if isinstance(p, pg.AtLeast)): 0}
                return r.evaluate(d)

            def then_assume(r, sub=sub):
                d = dict(sub) if sub is not None else {next(p.id for p in r.propositions if isinstance(p, pg.AtLeast)): 0}
                d = {k_: 1 - v_ for k_, v_ in d.items()}
                return r.assume(d)
            add(f"{X}.{fname}>evaluate[sub=0]", derived(X, first, then_eval))
            if fname != "reduce":
                add(f"{X}.{fname}>assume[sub=1]", derived(X, first, then_assume))
    add("K3.assume[partial]>evaluate[rule=0]", lambda w: (lambda r: r.evaluate({"X": 0}) if isinstance(r, pg.AtLeast) else r)(w["K3"].assume({"a": 1})))
    add("PF.negate", lambda w: w["PF"].negate())
    add("PF.child.negate", lambda w: w["PF"].propositions[0].negate())
    add("Not(PF)", lambda w: pg.Not(w["PF"]))
    add("PF.evaluate[total]", lambda w: w["PF"].evaluate({"a": 0, "b": 0, "c": 1}))
    add("PF.to_text", lambda w: w["PF"].to_text())
    add("PF.reduce", lambda w: w["PF"].reduce())
    add("F.reduce", lambda w: w["F"].reduce())
    add("F.assume[empty]", lambda w: w["F"].assume({}))
    add("F.assume[partial]", lambda w: w["F"].assume({"a": 1}))
    add("F.evaluate[total]", lambda w: w["F"].evaluate({"a": 1, "b": 0, "x": 0, "y": 1, "z": 1}))
    add("F.evaluate_propositions[partial]", lambda w: w["F"].evaluate_propositions({"a": 1, "z": 1}))
    add("F.to_text", lambda w: w["F"].to_text())
    add("F.to_json", lambda w: json.dumps(w["F"].to_json()))
    add("F.negate", lambda w: w["F"].negate())
    add("F.flags", lambda w: (w["F"].is_tautology, w["F"].is_contradiction, w["F"].equation_bounds))
    add("F.errors", lambda w: [str(e) for e in w["F"].errors()])
    add("NG.to_text", lambda w: w["NG"].to_text())
    add("NG.to_short", lambda w: w["NG"].to_short())
    add("NG.to_json", lambda w: json.dumps(w["NG"].to_json()))
    add("NG.to_b64", lambda w: w["NG"].to_b64())
    add("NG.hash", lambda w: hash(w["NG"]) == hash(w["NG"]))
    add("NG.children", lambda w: [str(p.id) for p in w["NG"].propositions])
    add("NG.to_ge_polyhedron[T]", lambda w: w["NG"].to_ge_polyhedron(active=True))
    add("NG.evaluate[total]", lambda w: w["NG"].evaluate({"a": 0, "x": 1, "y": 0}))
    add("NG.errors", lambda w: [str(e) for e in w["NG"].errors()])
    add("NG.flatten", lambda w: w["NG"].flatten())
    add("NG.negate", lambda w: w["NG"].negate())
    add("from_json(M.to_json)", lambda w: pg.from_json(json.loads(json.dumps(w["M"].to_json()))))
    add("from_json(G.to_json)", lambda w: pg.from_json(json.loads(json.dumps(w["G"].to_json()))))
    add("from_b64(N.to_b64)", lambda w: pg.from_b64(w["N"].to_b64()))
    add("from_cicJE", lambda w: pg.Imply.from_cicJE({"id": "r", "condition": {"relation": "ALL", "subConditions": [{"relation": "ANY", "components": [{"id": "a"}, {"id": "b"}]}]},
                                                    "consequence": {"ruleType": "REQUIRES_EXCLUSIVELY", "components": [{"id": "x"}, {"id": "y"}]}}))
    add("K3.from_json(to_json)", lambda w: cc.StingyConfigurator.from_json(json.loads(json.dumps(w["K3"].to_json()))))
    add("variable.from_json", lambda w: puan.variable.from_json({"id": "q", "bounds": {"lower": -1, "upper": 2}}))
    add("K1.ge_polyhedron.reduce", lambda w: (lambda P: P.reduce(*P.reducable_rows_and_columns()))(w["K1"].ge_polyhedron))
    add("K3.ge_polyhedron.to_b64", lambda w: w["K3"].ge_polyhedron.to_b64())
    add("Not(M)", lambda w: pg.Not(w["M"]))
    add("Imply(M,N)", lambda w: pg.Imply(w["M"], w["N"]))
    for K in ("K1", "K2", "J1", "J2", "K3"):
        add(f"{K}.ge_polyhedron", lambda w, K=K: w[K].ge_polyhedron)
        add(f"{K}.default_prios", lambda w, K=K: w[K].default_prios)
        add(f"{K}.leafs", lambda w, K=K: w[K].leafs())
        add(f"{K}.select", lambda w, K=K: list(w[K].select({"a": 1}, {"b": 2, "a": -1}, {"x": 1}, solver=cfgspace.Capture("exact"))))
        add(f"{K}.select[only_leafs]", lambda w, K=K: list(w[K].select({"a": 1}, {"y": 1}, solver=cfgspace.Capture("exact"), only_leafs=True)))
        add(f"{K}.add", lambda w, K=K: w[K].add(pg.Imply("a", "q", variable="NEW")))
        add(f"{K}.to_json", lambda w, K=K: json.dumps(w[K].to_json(), sort_keys=True))
        add(f"{K}.to_b64", lambda w, K=K: w[K].to_b64())
        add(f"{K}.errors", lambda w, K=K: [str(e) for e in w[K].errors()])
        add(f"{K}.evaluate[total]", lambda w, K=K: w[K].evaluate(dict(CFG_INTERPS["total"])))
        def ev_rule(w, K=K):
            return w[K].evaluate({w[K].propositions[0].id: 1})
        ev_rule.named = lambda w, K=K: {w[K].propositions[0].id: 1}
        add(f"{K}.evaluate[rule=1]", ev_rule)
        add(f"{K}.assume[partial]", lambda w, K=K: w[K].assume(dict(CFG_INTERPS["partial"])))
        add(f"{K}.to_ge_polyhedron[T]", lambda w, K=K: w[K].to_ge_polyhedron(active=True))
        add(f"{K}.flatten", lambda w, K=K: w[K].flatten())
        add(f"{K}.negate", lambda w, K=K: w[K].negate())
        add(f"{K}.select[builtin]", lambda w, K=K: list(w[K].select({"a": 1}, {"y": 1})))
        add(f"{K}.to_text", lambda w, K=K: w[K].to_text())
        add(f"{K}.to_short", lambda w, K=K: w[K].to_short())
        add(f"{K}.leafs.to_short", lambda w, K=K: [(v.to_short(), v.to_json()) for v in w[K].leafs()])
    return ops


_OPS = None


def OPS():
    global _OPS
    if _OPS is None:
        _OPS = ops_menu()
    return _OPS


def world_fp(w):
    memo = {}
    from ..fingerprint import _fp
    return tuple((k, _fp(w[k], memo)) for k in sorted(w))


def run_path(path):
    """Executed inside a forked child: replay `path` (op indices) on a fresh world.  Returns one record per step."""
    ops = OPS()
    w = build_world()
    recs = []
    fp = world_fp(w)
    memo0 = memo_state(w, canon)
    for j in path:
        name, fn = ops[j]
        nodes = {}
        for k in sorted(w):
            for o in walk(w[k]).values():
                nodes[id(o)] = (o, o.id, tuple(map(int, o.bounds.as_tuple())))
        named = {}
        if hasattr(fn, "named"):
            for k_, v_ in fn.named(w).items():
                b_ = (v_, v_) if isinstance(v_, int) else tuple(v_ if isinstance(v_, tuple) else v_.as_tuple())
                named[k_] = (int(b_[0]), int(b_[1]))
        try:
            obs = canon(fn(w))
        except BaseException as e:
            obs = ("EXC", type(e).__name__, str(e)[:200])
        fp2 = world_fp(w)
        rebound = [(repr(i), old, tuple(map(int, o.bounds.as_tuple()))) for (o, i, old) in nodes.values() if tuple(map(int, o.bounds.as_tuple())) != old]
        memo1 = memo_state(w, canon)
        stale = memo_changed(memo0, memo1)
        memo0 = memo1
        recs.append({"op": j, "obs": obs, "changed": fp2 != fp, "diff": diff(fp, fp2, limit=40) if fp2 != fp else [], "memo_changed": stale,
                     "rebound": rebound, "named": {repr(k_): v_ for k_, v_ in named.items()},
                     "hidden": (hidden_state(), tuple(e[:3] for e in memo1))})
        fp = fp2
    return recs, fp


def in_child(path):
    """fork - run - pipe - wait."""
    r, wfd = os.pipe()
    pid = os.fork()
    if pid == 0:
        try:
            os.close(r)
            try:
                out = ("ok", run_path(path))
            except BaseException as e:
                out = ("err", repr(e))
            with os.fdopen(wfd, "wb") as f:
                pickle.dump(out, f)
        finally:
            os._exit(0)
    os.close(wfd)
    with os.fdopen(r, "rb") as f:
        data = f.read()
    os.waitpid(pid, 0)
    tag, val = pickle.loads(data)
    if tag != "ok":
        raise RuntimeError("child failed: " + val)
    return val


ORDER_FAMILIES = {"quick": ["abc/explicit", "at/explicit", "conn2/ab/generated"],
                  "thorough": ["abc/explicit", "at/explicit", "conn2/ab/generated", "abt/explicit", "abc/generated", "diamond/explicit"]}


def shards(tier):
    n = len(OPS())
    depth = 2 if tier == "quick" else 3
    out = [(i, depth) for i in range(n)]
    from .. import families
    out += [("order",) + s_ for s_ in families.shards_for(ORDER_FAMILIES[tier], 500)]
    return out


def model_digest(m):
    """Everything a maintainer might memoise on a proposition, computed on a FRESH object."""
    from ..ast import bind
    obj, _ = bind(m)
    if is_var(obj):
        return None
    errs = [str(e) for e in obj.errors()]
    out = [errs, [repr(getattr(x, "id", x)) for x in obj.flatten()], list(map(repr, obj.variables)), obj.to_text(), json.dumps(obj.to_json(), sort_keys=True),
           repr(obj.to_short()), tuple(map(int, obj.equation_bounds)), obj.is_tautology, obj.is_contradiction, obj.negate().to_text(), len(obj.to_b64())]
    if not errs:
        r = obj.reduce()
        out.append(r.to_text() if hasattr(r, "to_text") else repr(r))
        try:
            P = obj.to_ge_polyhedron(active=True)
            out.append((np.asarray(P).tolist(), [repr(v.id) for v in P.variables]))
            out.append(repr(list(obj.solve([{"a": 1}], solver=cfgspace.Capture("exact")))))
        except BaseException as e:
            out.append("EXC " + type(e).__name__)
    return repr(out)


def run_order(desc, acc):
    """History = the ORDER in which different models are queried in one process: every model of the slice forwards, then backwards; each query
    on a fresh object must give what it gave before (neighbouring models are equal under __eq__ / collide under __hash__)."""
    from .. import families
    _, fam, lo, hi = desc
    models = families.family(fam)[lo:hi]
    first = {}
    for k, m in enumerate(models, start=lo):
        try:
            first[k] = model_digest(m)
        except BaseException as e:
            first[k] = "EXC " + repr(e)
        acc.n("traces")
        acc.n("transitions", 12)
        acc.state(("order", fam, k))
    for k in range(hi - 1, lo - 1, -1):
        try:
            now = model_digest(models[k - lo])
        except BaseException as e:
            now = "EXC " + repr(e)
        acc.n("traces")
        acc.n("transitions", 12)
        acc.obs(k, now)
        if now != first[k]:
            acc.violation(None, {"order": True, "fam": fam, "lo": lo, "hi": hi, "k": k},
                          {"what": "a query on a freshly built model returns something else depending on which other models were queried before", "model": repr(models[k - lo])[:300],
                           "first_pass": (first[k] or "")[:400], "reverse_pass": (now or "")[:400]})
        else:
            acc.nontriv(("order", fam, k))


_PRISTINE = {}
_PH = []


def PRISTINE_HIDDEN():
    """Non-cache hidden state of a process that imported the library and executed nothing (this worker itself executes nothing)."""
    if not _PH:
        _PH.append(tuple(e for e in hidden_state() if e[0] != "cache"))
    return _PH[0]


def pristine(j):
    if j not in _PRISTINE:
        recs, _ = in_child([j])
        _PRISTINE[j] = recs[0]["obs"]
    return _PRISTINE[j]


def classify_change(opname, rec):
    """Model of open finding D3: evaluate / evaluate_propositions / assume called with a dictionary that names a sub-proposition's (or
    the receiver's own) id assign that node's .variable to the given bounds.  A change matches D3 only if (a) the call belongs to
    that family, (b) every changed fingerprint path lies under a '/variable' attribute, (c) every node whose bounds changed has an
    id that is a key of the dictionary and now carries exactly the bounds given there.  Anything else stays unclassified."""
    meth = opname.split(".", 1)[1] if "." in opname else opname
    if not (meth.startswith("evaluate") or meth.startswith("assume")):
        return None
    if not rec["named"] or not rec["rebound"]:
        return None
    for path, a, b in rec["diff"]:
        if "/variable" not in path:
            return None
    for (nid, old, new) in rec["rebound"]:
        if nid not in rec["named"] or tuple(rec["named"][nid]) != tuple(new):
            return None
    return "D3:assume-assigns-own-variable"


def run_shard(desc, acc, tier):
    if desc[0] == "order":
        run_order(desc, acc)
        return
    first, depth = desc
    ops = OPS()
    n = len(ops)
    # depth 1
    check_path([first], acc)
    recs, fp1 = in_child([first])
    if recs[0]["changed"]:
        return      # impure transition reported by check_path; target state not expanded
    seen = set()
    frontier = []
    for j in range(n):
        ok, key = check_path([first, j], acc)
        if ok and depth >= 3 and key not in seen:
            seen.add(key)
            frontier.append([first, j])
    if depth >= 3:
        for hist in frontier:
            for j in range(n):
                check_path(hist + [j], acc)
    if first % 25 == 0:
        acc.sample({"history": [ops[first][0], ops[(first * 7 + 3) % n][0]], "checked": "observation equals pristine; world fingerprint unchanged"})


def check_path(path, acc):
    """Executes one path in a child; checks the LAST step (earlier steps were checked as shorter paths).  Returns (expandable, state key)."""
    ops = OPS()
    recs, fp = in_child(path)
    last = recs[-1]
    name = ops[last["op"]][0]
    hist = [ops[j][0] for j in path]
    case = {"path": list(path), "history": hist}
    acc.n("traces")
    acc.n("transitions")
    key = (repr(fp), repr(last["hidden"]))
    acc.state(key)
    acc.obs(path, repr(last["obs"]), last["changed"])
    if any(r["hidden"] != recs[0]["hidden"] for r in recs) or len(path) > 1:
        acc.nontriv(tuple(path))
    expandable = True
    sig = None
    if last["changed"]:
        sig = classify_change(name, last)
        acc.violation(sig, case, {"what": f"{name.split('[')[0]} changed the object it was called on (or another object of the world)", "call": name, "changed_paths": last["diff"][:8]})
        expandable = False
    # (4) hidden state other than cache fill levels (mutable default arguments, module globals) never changes
    def noncache(h):
        return tuple(e for e in h[0] if e[0] != "cache")
    before = recs[-2]["hidden"] if len(recs) > 1 else None
    if before is not None and noncache(before) != noncache(last["hidden"]) or noncache(last["hidden"]) != PRISTINE_HIDDEN():
        acc.violation(None, case, {"what": f"{name.split('[')[0]} changed process-wide hidden state (a mutable default argument or module global)", "call": name,
                                   "history": hist, "changed": [e for e in noncache(last["hidden"]) if e not in PRISTINE_HIDDEN()][:4]})
        expandable = False
    if last["memo_changed"] and sig is None:
        # (a memo that aliases a node re-bound by a D3 transition changes with it: same defect, already reported above)
        acc.violation(None, case, {"what": f"{name.split('[')[0]} changed a result that an earlier call had cached on an object (per-instance memo)", "call": name,
                                   "history": hist, "memo(owner,node,attribute | before | after)": last["memo_changed"][:4]})
        expandable = False
    want = pristine(last["op"])
    if last["obs"] != want:
        # a mismatch behind an impure step of the same path is a consequence of that step; report only with pure prefixes
        if not any(r["changed"] for r in recs[:-1]):
            acc.violation(classify_obs(hist, last, want), case, {"what": f"{name.split('[')[0]} returns something else than in a pristine process after {hist[-2].split('[')[0] if len(hist) > 1 else 'nothing'}", "history": hist,
                                                                  "pristine": repr(want)[:500], "got": repr(last["obs"])[:500]})
            expandable = False
    acc.hist("hidden_state_changed_by_last_call", len(recs) > 1 and recs[-1]["hidden"] != recs[-2]["hidden"] or (len(recs) == 1 and False))
    return expandable, key


def classify_obs(hist, last, want):
    return None


def replay(case, acc):
    if case.get("order"):
        run_order(("order", case["fam"], case["lo"], case["hi"]), acc)
        return
    check_path(list(case["path"]), acc)
