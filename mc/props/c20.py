"""C20 - id/position bridges are faithful."""
import functools
import itertools
import math

from ..env import np, puan, pnd
from .. import mspace

ID = "C20"
RULE = ("Mode M: EVERY duplicate-free ordered variable list of length 1..3 over ids {'a','b','ue'(unicode),7,0,'7'} x every bounds choice from "
        "{(0,1),(-2,3),(-2,5),(1,1),(3,3),(-1,3)} (equal hash sums included; length 3: the first four, length 4: the first two) x every dictionary over a subset of the ids with/without an "
        "unknown id x default_value in {None, callable} x dtype in {int64,int32,int16,float64,float32,float16,longdouble} for construct(); every sub-list (ordered, and nested "
        "lists of lists) of every context for boolean/integer from_list; every 0/1 mask and every vector over {-1,0,1,2} for 1-D to_list, every 0/1 matrix of <=3 rows and <=6 entries for 2-D to_list and stacked for 3-D; boolean/integer variable "
        "index partition for every list; A / b / to_linalg on every 2x2 system of the C11 space. oracle: the statement, literally. "
        "non-trivial = distinct case with at least one given and one defaulted position")
ASSUMPTIONS = ["ids are duplicate-free (stated); dictionary values are distinct small integers (one of them 0) so that permutations and falsy values are visible"]
BOUNDS = {"quick": "as in rule", "thorough": "as quick + length 4 with all four bounds, contexts of length 5"}
IDS = ["a", "b", "ü", 7, 0, "7"]      # the int 7 next to the str "7": ids that coincide after a str() coercion
# (0,1), (-2,3) and (-1,3) have equal hash(lower)+hash(upper) (hash(-1) == -2): anything keyed by the hash of a variable confuses them
BMENU = [(0, 1), (-2, 3), (-2, 5), (1, 1), (3, 3), (-1, 3), (1, 2), (-1, 0)]      # the last two: width 1 like a boolean, but not (0,1)
# distinct values so that permutations are visible; one of them is 0 (a given 0 is a value, not "missing")
VAL = {"a": 11, "b": 0, "ü": 13, 7: -14, 0: -15, "7": 17, "zz": 99}


DTYPES = (np.int64, np.int32, np.float64, np.float32, np.float16, np.int16, np.longdouble)


def var_lists(tier):
    out = []
    for n in (1, 2, 3, 4):
        menu = (BMENU if n < 3 else BMENU[:4]) if (n < 4 or tier == "thorough") else BMENU[:2]
        for ids in itertools.permutations(IDS, n):
            for bds in itertools.product(menu, repeat=n):
                out.append((ids, bds))
    return out


_VL = {}


def vl(tier):
    if tier not in _VL:
        _VL[tier] = var_lists(tier)
    return _VL[tier]


def shards(tier):
    n = len(vl(tier))
    out = [("construct", lo, min(n, lo + 250)) for lo in range(0, n, 250)]
    out += [("lists", 0, 1), ("lists", 1, 2), ("lists", 2, 3)]
    nm = mspace.size("2x2")
    out += [("linalg", lo, min(nm, lo + 9000)) for lo in range(0, nm, 9000)]
    return out


def run_shard(desc, acc, tier):
    kind, lo, hi = desc
    if kind == "construct":
        for k in range(lo, hi):
            check_construct(k, tier, acc)
    elif kind == "lists":
        check_lists(lo, tier, acc)
    else:
        for idx in range(lo, hi):
            check_linalg(idx, acc)


def default_callable(v):
    return v.bounds.upper * 7 + 1


class _CallableObject:
    def __call__(self, v):
        return default_callable(v)

    def method(self, v):
        return default_callable(v)


def _with_extra(extra, v):
    return default_callable(v)


CALLABLES = [default_callable, lambda v: default_callable(v), functools.partial(_with_extra, None), _CallableObject(), _CallableObject().method]


def check_construct(k, tier, acc, only=None):
    ids, bds = vl(tier)[k]
    variables = [puan.variable(i, b) for i, b in zip(ids, bds)]
    n = len(ids)
    acc.n("var_lists")
    acc.state((ids, bds))
    holders = [pnd.variable_ndarray(np.zeros((1, n)), variables=variables),
               pnd.integer_ndarray(np.zeros((2, n)), variables=variables)]
    case0 = {"kind": "construct", "k": k, "tier": tier}
    # index partition
    arr = holders[0]
    bi = np.asarray(arr.boolean_variable_indices).tolist()
    ii = np.asarray(arr.integer_variable_indices).tolist()
    wb = [j for j, b in enumerate(bds) if tuple(b) == (0, 1)]
    wi = [j for j, b in enumerate(bds) if tuple(b) != (0, 1)]
    acc.n("transitions", 2)
    if bi != wb or ii != wi:
        acc.violation(None, case0, {"what": "boolean/integer variable indices do not partition the columns by bounds==(0,1)", "ids": ids, "bounds": bds,
                                    "boolean": bi, "integer": ii})
        return
    ci = -1
    for r in range(0, n + 1):
        for sub in itertools.combinations(range(n), r):
            for unknown in (False, True):
                for dflt in (None, default_callable):
                    for dt in DTYPES:
                        ci += 1
                        if only is not None and ci != only:
                            continue
                        d = {ids[j]: VAL[ids[j]] for j in sub}
                        if unknown:
                            d["zz"] = VAL["zz"]
                        h = holders[ci % 2]
                        case = dict(case0, ci=ci)
                        acc.n("traces")
                        acc.n("transitions")
                        try:
                            dd = dict(d)
                            # the kind of callable is not part of the contract: plain function, lambda, functools.partial, an object
                            # with __call__, a bound method - in rotation, all computing default_callable(variable)
                            dfl = None if dflt is None else CALLABLES[ci % len(CALLABLES)]
                            got = h.construct(dd, default_value=dfl, dtype=dt) if dflt is not None or dt is not np.int64 else h.construct(dd)
                            if dd != d or list(dd) != list(d):
                                acc.violation(None, case, {"what": "construct() changed the caller's dictionary", "before": repr(d), "after": repr(dd)})
                                continue
                        except BaseException as e:
                            acc.violation(None, case, {"what": "construct raised", "exc": repr(e), "ids": ids, "bounds": bds, "dict": repr(d), "dtype": dt.__name__})
                            continue
                        want = []
                        for j in range(n):
                            if j in sub:
                                want.append(VAL[ids[j]])
                            elif dflt is not None:
                                want.append(default_callable(variables[j]))
                            elif issubclass(dt, np.floating):
                                want.append(math.nan)
                            else:
                                want.append(bds[j][0])
                        g = np.asarray(got)
                        ok = g.shape == (n,) and g.dtype == np.dtype(dt) and all(
                            (math.isnan(w) and math.isnan(float(x))) or (not (isinstance(w, float) and math.isnan(w)) and float(x) == float(w))
                            for x, w in zip(g.tolist(), want))
                        acc.obs(repr(g.tolist()), str(g.dtype))
                        if not ok:
                            acc.violation(None, case, {"what": "construct() result differs from the statement", "ids": ids, "bounds": bds, "dict": repr(d),
                                                       "default": "callable" if dflt else None, "dtype": dt.__name__, "got": repr(g.tolist()),
                                                       "got_dtype": str(g.dtype), "want": repr(want)})
                            continue
                        if 0 < r < n:
                            acc.nontriv((ids, bds, sub, unknown, dflt is not None, dt.__name__))
    if k % 700 == 0:
        acc.sample({"variables": [repr(v) for v in variables], "dict": repr({ids[0]: VAL[ids[0]], "zz": 99}), "expected_int64": [VAL[ids[0]]] + [b[0] for b in bds[1:]]})


def check_lists(part, tier, acc):
    """from_list / to_list over every context (ordered id lists) and every sub-list."""
    maxlen = 4 if tier == "quick" else 5
    ctxs = [c for n in range(1, maxlen + 1) for c in itertools.permutations(IDS, n)]
    ctxs = ctxs[part::3]
    for ctx in ctxs:
        ctx = list(ctx)
        acc.state(("ctx", tuple(ctx)))
        subs = [list(s) for r in range(0, len(ctx) + 1) for s in itertools.permutations(ctx, r)]
        if len(subs) > 70:
            subs = [list(s) for r in range(0, 3) for s in itertools.permutations(ctx, r)] + [list(s) for s in itertools.combinations(ctx, len(ctx) - 1)] + [ctx[::-1]]
        extra = [["zz"] + s for s in subs[:3]]
        for lst in subs + extra:
            acc.n("traces")
            acc.n("transitions", 2)
            case = {"kind": "lists", "ctx": ctx, "lst": lst}
            try:
                gb = np.asarray(pnd.boolean_ndarray.from_list(list(lst), list(ctx))).tolist()
                gi = np.asarray(pnd.integer_ndarray.from_list(list(lst), list(ctx))).tolist()
            except BaseException as e:
                acc.violation(None, case, {"what": "from_list raised", "exc": repr(e)})
                continue
            wb = [1 if _in(x, lst) else 0 for x in ctx] if lst else []
            wi = [(_pos(x, lst) + 1) if _in(x, lst) else 0 for x in ctx] if lst else []
            acc.obs(gb, gi)
            # the context (e.g. polyhedron.variables) or the list given as puan.variable objects instead of raw ids
            if lst and all(isinstance(x, str) for x in ctx):
                vctx = [puan.variable(x, BMENU[j % 6]) for j, x in enumerate(ctx)]
                vlst = [puan.variable(x, (0, 1)) for x in lst if isinstance(x, str)]
                try:
                    alt = [np.asarray(pnd.boolean_ndarray.from_list(list(lst), list(vctx))).tolist(), np.asarray(pnd.integer_ndarray.from_list(list(lst), list(vctx))).tolist()]
                    if len(vlst) == len(lst):
                        alt += [np.asarray(pnd.boolean_ndarray.from_list(list(vlst), list(ctx))).tolist(), np.asarray(pnd.integer_ndarray.from_list(list(vlst), list(ctx))).tolist()]
                except BaseException as e:
                    acc.violation(None, case, {"what": "from_list raised with puan.variable objects", "exc": repr(e)})
                    continue
                acc.n("transitions", len(alt))
                if any(a != w for a, w in zip(alt, [wb, wi, wb, wi])):
                    acc.violation(None, case, {"what": "from_list marks other entries when the context / the list is given as puan.variable objects", "got": alt,
                                               "want_boolean": wb, "want_integer": wi})
                    continue
            if gb != wb or gi != wi:
                acc.violation(None, case, {"what": "from_list does not mark exactly the listed ids (with 1-based positions)", "boolean": gb, "integer": gi,
                                           "want_boolean": wb, "want_integer": wi})
                continue
            if lst and len(lst) < len(ctx):
                acc.nontriv(("fl", tuple(ctx), tuple(lst)))
        # nested lists
        nested = [[list(ctx[:1]), list(ctx[-1:])], [list(ctx), list(ctx[::-1][:2])]]
        for lst in nested:
            acc.n("traces")
            acc.n("transitions", 2)
            case = {"kind": "lists", "ctx": ctx, "lst": lst}
            try:
                gb = np.asarray(pnd.boolean_ndarray.from_list([list(x) for x in lst], list(ctx))).tolist()
                gi = np.asarray(pnd.integer_ndarray.from_list([list(x) for x in lst], list(ctx))).tolist()
            except BaseException as e:
                acc.violation(None, case, {"what": "from_list (nested) raised", "exc": repr(e)})
                continue
            wb = [[1 if _in(x, l) else 0 for x in ctx] for l in lst]
            wi = [[(_pos(x, l) + 1) if _in(x, l) else 0 for x in ctx] for l in lst]
            if gb != wb or gi != wi:
                acc.violation(None, case, {"what": "nested from_list differs", "boolean": gb, "integer": gi, "want_boolean": wb, "want_integer": wi})
        # to_list over every mask
        variables = [puan.variable(i, BMENU[j % 6]) for j, i in enumerate(ctx)]
        n = len(ctx)
        masks = list(itertools.product((0, 1), repeat=n))
        # entries other than 0/1 (what p + q, p - q of two from_list vectors hold): only the 1-entries are listed
        wide = [m for m in itertools.product((-1, 0, 1, 2) if n <= 3 else (0, 1, 2), repeat=n) if any(v not in (0, 1) for v in m)]
        for mk, mask in enumerate(masks + wide):
            acc.n("traces")
            acc.n("transitions")
            case = {"kind": "to_list", "ctx": ctx, "mask": mask}
            try:
                if mk < len(masks) and mk % 3 == 2:
                    arr = pnd.boolean_ndarray(np.array(mask, dtype=bool), variables=variables)
                elif mk >= len(masks) and min(mask) >= 0 and mk % 2 == 0:
                    # the same entries reached by arithmetic on two 0/1 vectors
                    arr = pnd.boolean_ndarray(np.array([1 if v >= 1 else 0 for v in mask]), variables=variables) + \
                        pnd.boolean_ndarray(np.array([1 if v >= 2 else 0 for v in mask]), variables=variables)
                else:
                    arr = pnd.boolean_ndarray(np.array(mask), variables=variables)
                got = arr.to_list()
            except BaseException as e:
                acc.violation(None, case, {"what": "to_list raised", "exc": repr(e)})
                continue
            want = [variables[j] for j in range(n) if mask[j] == 1]
            if mk >= len(masks):
                acc.nontriv(("tl", tuple(map(str, ctx)), mask))
            if len(got) != len(want) or any(g is not w and (g.id != w.id or g.bounds != w.bounds) for g, w in zip(got, want)) or \
                    [(_k(g.id), g.bounds.as_tuple()) for g in got] != [(_k(w.id), w.bounds.as_tuple()) for w in want]:
                acc.violation(None, case, {"what": "to_list does not return exactly the variables at the 1-entries", "got": repr(got), "want": repr(want)})
        # EVERY 0/1 matrix of 1..3 rows with at most 6 entries (empty rows first, in the middle, last; all-zero matrices), and each
        # of them stacked on its reverse as a 3-D array
        for r_ in (1, 2, 3):
            if r_ * n > 6:
                continue
            for bits in itertools.product((0, 1), repeat=r_ * n):
                mat = np.array(bits).reshape(r_, n)
                acc.n("traces")
                acc.n("transitions", 2)
                case = {"kind": "to_list_matrix", "ctx": ctx, "matrix": mat.tolist()}
                try:
                    got2 = pnd.boolean_ndarray(mat.copy(), variables=variables).to_list()
                    got3 = pnd.boolean_ndarray(np.array([mat, mat[::-1]]), variables=variables).to_list()
                except BaseException as e:
                    acc.violation(None, case, {"what": "2-D / 3-D to_list raised", "exc": repr(e)})
                    continue
                want2 = [[_k(variables[j].id) for j in range(n) if row[j] == 1] for row in mat.tolist()]
                ok2 = isinstance(got2, list) and len(got2) == r_ and [[_k(g.id) for g in row] for row in got2] == want2
                ok3 = (isinstance(got3, list) and len(got3) == 2 and all(isinstance(b_, list) and len(b_) == r_ for b_ in got3)
                       and [[[_k(g.id) for g in row] for row in b_] for b_ in got3] == [want2, want2[::-1]])
                if not ok2 or not ok3:
                    acc.violation(None, case, {"what": "2-D / 3-D to_list does not return one list per row with exactly the variables at the 1-entries",
                                               "got_2d": repr(got2)[:300], "want_2d": repr(want2), "three_d_ok": ok3})
                    continue
                if not mat[-1].any() and mat.any():
                    acc.nontriv(("tlm", tuple(map(str, ctx)), bits))
        if n >= 2:
            two = np.array([masks[1], masks[-2], masks[len(masks) // 2], wide[len(wide) // 2], wide[-2]])
            got = pnd.boolean_ndarray(two, variables=variables, index=[puan.variable(f"r{i}") for i in range(5)]).to_list()
            want = [[variables[j] for j in range(n) if row[j] == 1] for row in two.tolist()]
            acc.n("transitions")
            if [[(_k(g.id), g.bounds.as_tuple()) for g in r_] for r_ in got] != [[(_k(w.id), w.bounds.as_tuple()) for w in r_] for r_ in want]:
                acc.violation(None, {"kind": "to_list2d", "ctx": ctx}, {"what": "2-D to_list differs", "got": repr(got), "want": repr(want)})
    acc.sample({"context": ["a", 7, 0], "lst": [0, "a"], "boolean": [1, 0, 1], "integer": [2, 0, 1]})


def _k(i):
    return (type(i).__name__, i)


def _in(x, lst):
    return any(type(y) is type(x) and y == x for y in lst)


def _pos(x, lst):
    return next(j for j, y in enumerate(lst) if type(y) is type(x) and y == x)


def check_linalg(idx, acc):
    M, bds = mspace.case_at("2x2", idx)
    P = mspace.polyhedron(M, bds)
    acc.n("traces")
    acc.n("transitions", 3)
    case = {"kind": "linalg", "idx": idx}
    try:
        A, b = P.A, P.b
        A2, b2 = P.to_linalg()
    except BaseException as e:
        acc.violation(None, case, {"what": "A/b/to_linalg raised", "exc": repr(e), "matrix": M.tolist()})
        return
    ok = (np.asarray(A).tolist() == M[:, 1:].tolist() and np.asarray(b).tolist() == M[:, 0].tolist()
          and np.asarray(A2).tolist() == M[:, 1:].tolist() and np.asarray(b2).tolist() == M[:, 0].tolist()
          and [(v.id, v.bounds.as_tuple()) for v in A.variables] == [(v.id, v.bounds.as_tuple()) for v in P.variables[1:]]
          and [x.id for x in A.index] == [x.id for x in P.index])
    acc.obs(np.asarray(A).tolist(), np.asarray(b).tolist())
    if not ok:
        acc.violation(None, case, {"what": "A / b / to_linalg are not the matrix without / the first column with matching variables", "matrix": M.tolist(),
                                   "A": np.asarray(A).tolist(), "b": np.asarray(b).tolist(), "A.variables": [str(v.id) for v in A.variables]})
    acc.state(("M", idx))
    if M[:, 1:].any() and M[:, 0].any():
        acc.nontriv(("M", idx))


def replay(case, acc):
    if case["kind"] == "construct":
        check_construct(case["k"], case["tier"], acc, only=case.get("ci"))
    elif case["kind"] == "linalg":
        check_linalg(case["idx"], acc)
    else:
        for part in range(3):
            check_lists(part, "quick", acc)
