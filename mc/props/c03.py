"""C03 - evaluation computes the arithmetic truth function of every node."""
import itertools

from ..env import np, puan, pg
from .. import ref, families
from ..ast import bind, leaves_of, compounds_of, show, walk, is_var, arith_eval_obj

ID = "C03"
RULE = ("Mode G: every raw AtLeast model of the named families (depth<=2, <=2(3) children, both signs, all relevant "
        "thresholds, explicit/generated ids, diamond DAGs, constant leaves, nodes pre-fixed by bounds, childless compounds, single-variable models) x every total leaf "
        "interpretation x value form (int, numpy.int64, (v,v), Bounds) x overrides of <=2 sub-proposition ids; "
        "oracle = bottom-up arithmetic truth function with fixed nodes; non-trivial = distinct model whose truth table "
        "over the explored assignments is not constant")
ASSUMPTIONS = [
    "models are filtered by errors()==[] (C10 guards that filter)",
    "overrides that contradict a node's own constant construction bounds are not generated (the statement does not order them)",
    "ids below a fixed node may be absent from evaluate_propositions (by design) and are not demanded",
]
BOUNDS = {
    "quick": "families abc|abt (explicit) + abc (generated, root) + diamonds + fixed/abc + abk1k0; w=2,d=2; overrides: <=2 ids on abc/explicit, 1 id on diamond/explicit and abc/generated",
    "thorough": "quick + abcdt/explicit/w2, abcu w3 on 3 leaves, d3 chains, overrides everywhere",
}

FORMS = ("int", "np", "tuple", "Bounds")   # "np" alternates numpy.int64 / numpy.int32


def _val(v, form):
    if form == "int":
        return v
    if form == "np":
        return np.int64(v) if v % 2 == 0 else np.int32(v)
    if form == "tuple":
        return (v, v)
    return puan.Bounds(v, v)


QUICK = ["ab/explicit", "at/explicit", "abc/explicit", "abt/explicit", "abc/generated", "abc/root", "diamond/explicit",
         "diamond/generated", "fixed/abc", "abk1k0/explicit", "mix3/abtn/explicit", "wide/1", "illdef/x", "alt/mix3b+abt+explicit"]
QUICK_OVR = [("ovr2", "abc/explicit"), ("ovr1", "diamond/explicit"), ("ovr1", "abc/generated"), ("ovr1", "fixed/ab")]
THOROUGH = QUICK + ["abct/explicit", "abcdt/explicit", "abu/explicit/w3", "abt/explicit/w3", "d3/abc/explicit", "d3/abt/generated", "fixed/abt",
                    "abtn/explicit", "abt/generated", "abt/root"]
THOROUGH_OVR = [("ovr2", "abc/explicit"), ("ovr2", "diamond/explicit"), ("ovr2", "abc/generated"), ("ovr2", "abt/explicit"),
                ("ovr1", "fixed/abc"), ("ovr2", "d3/abc/explicit"), ("ovr1", "diamond/generated"), ("ovr1", "abct/explicit")]


DERIVED_QUICK = ["abc/explicit", "at/explicit", "mix3/abt/explicit", "diamond/explicit"]
DERIVED_THOROUGH = DERIVED_QUICK + ["abt/explicit", "abc/generated", "d3/ab/explicit", "alt/mix3b+abt+explicit"]


def check_derived(m, acc, fam, k, only=None):
    """Objects that did not come straight out of a constructor: negate(), Not(.), negate().negate(), Imply(., z), assume({}) and reduce()
    of every model. Such objects have no AST of their own, so the oracle is the arithmetic truth function over the LIVE object's own
    sign / value / children (mc/ast.py arith_eval_obj): every node of the derived object, on every total assignment, must evaluate to
    sign * sum(children) >= value."""
    case0 = {"fam": fam, "k": k, "ast": m, "mode": "derived"}
    try:
        obj, _ = bind(m)
        if is_var(obj) or obj.errors():
            return
    except BaseException as e:
        acc.violation(None, case0, {"what": "construction raised", "exc": repr(e)})
        return
    makers = [("negate", lambda o: o.negate()), ("Not", lambda o: pg.Not(o)), ("negate.negate", lambda o: o.negate().negate()),
              ("Imply(.,z)", lambda o: pg.Imply(o, "z")), ("assume({})", lambda o: o.assume({})), ("Not.reduce", lambda o: pg.Not(o).reduce())]
    leaves = dict(leaves_of(m))
    leaves["z"] = (0, 1)
    for di, (dname, mk) in enumerate(makers):
        if only is not None and di != only:
            continue
        case = dict(case0, derived=di)
        try:
            src, _ = bind(m)
            D = mk(src)
        except BaseException as e:
            acc.violation(None, case, {"what": f"{dname} raised", "exc": repr(e), "model": show(m)})
            continue
        if is_var(D):
            continue
        try:
            if D.errors():
                # e.g. the negation of a diamond holds the shared node and its negation under ONE explicit id: not a well-defined model
                acc.n("derived_objects_rejected_by_errors()")
                continue
        except BaseException as e:
            acc.violation(None, case, {"what": f"errors() on the result of {dname} raised", "exc": repr(e), "model": show(m)})
            continue
        acc.state((m, dname))
        nodes = [o for o in walk(D).values()]
        tv = set()
        for alpha in ref.assignments_dom(leaves, 3):
            acc.n("traces")
            acc.n("transitions")
            try:
                fresh_src, _ = bind(m)
                res = mk(fresh_src).evaluate_propositions(dict(alpha))
            except BaseException as e:
                acc.violation(None, case, {"what": f"evaluate_propositions on the result of {dname} raised", "exc": repr(e), "model": show(m)})
                break
            memo = {}
            bad = None
            for o in nodes:
                want = arith_eval_obj(o, alpha, memo)
                got = res.get(o.id)
                if want is None or got is None:
                    continue
                if got.as_tuple() != (want, want):
                    bad = (str(o.id), want, got.as_tuple())
                    break
            tv.add(arith_eval_obj(D, alpha, memo))
            if bad:
                acc.violation(None, case, {"what": f"a node of the object returned by {dname} does not evaluate to sign*sum(children) >= value", "model": show(m),
                                           "derived": D.to_text().split("\n"), "assignment": alpha, "node": bad[0], "arithmetic": bad[1], "evaluated": bad[2]})
                break
        else:
            if len(tv) > 1:
                acc.nontriv((m, dname))


def leaf_models(acc):
    """A model may be a single variable: variable.evaluate / evaluate_propositions with every value form (the AtLeast path goes through
    variable.assume instead, so this is the only way these two methods are reached)."""
    for bd in ((0, 1), (-2, 2), (1, 1), (0, 3), (-32768, 32767)):
        for v in ref.domain(bd[0], bd[1], 3):
            for form in ("int", "np64", "np32", "tuple", "Bounds", "absent"):
                x = puan.variable("x", bd)
                val = {"int": v, "np64": np.int64(v), "np32": np.int32(v), "tuple": (v, v), "Bounds": puan.Bounds(v, v)}.get(form)
                interp = {"y": 1} if form == "absent" else {"x": val, "y": 0}
                want = bd if form == "absent" else (v, v)
                case = {"mode": "leaf", "bounds": bd, "v": v, "form": form}
                acc.n("traces")
                acc.n("transitions", 2)
                acc.state(("leaf", bd, v, form))
                try:
                    got = x.evaluate(interp)
                    gotp = x.evaluate_propositions(interp)
                except BaseException as e:
                    acc.violation(None, case, {"what": "variable.evaluate raised on a documented value form", "exc": repr(e)})
                    continue
                if tuple(map(int, got.as_tuple())) != want or set(gotp) != {"x"} or tuple(map(int, gotp["x"].as_tuple())) != want:
                    acc.violation(None, case, {"what": "a single-variable model does not evaluate to the given value / its bounds", "got": repr(got), "want": want})


def empties():
    """Compound nodes without children (accepted by errors()): value in {-1,0,1} x sign, alone and next to other children."""
    from ..ast import N, L
    out = []
    for s in (1, -1):
        for v in (-1, 0, 1):
            E = N("E", s, v, [])
            out.append(N("A", 1, 1, [E]))
            for s2 in (1, -1):
                for v2 in (-1, 0, 1, 2):
                    out.append(N("A", s2, v2, [E, L("a")]))
                    out.append(N("A", s2, v2, [E, N("B", 1, 1, [L("a"), L("b")])]))
    return out


def shards(tier):
    names = QUICK if tier == "quick" else THOROUGH
    ovr = QUICK_OVR if tier == "quick" else THOROUGH_OVR
    out = [("leaf", "-", 0, 0), ("empty", "-", 0, 0)]
    out += [("plain",) + s for s in families.shards_for(names, 700)]
    for mode, fam in ovr:
        out += [(mode,) + s for s in families.shards_for([fam], 400)]
    for fam in (DERIVED_QUICK if tier == "quick" else DERIVED_THOROUGH):
        out += [("derived",) + s for s in families.shards_for([fam], 600)]
    return out


def run_shard(desc, acc, tier):
    mode, fam, lo, hi = desc
    if mode == "leaf":
        leaf_models(acc)
        return
    if mode == "empty":
        for k, m in enumerate(empties()):
            check_model(m, acc, "plain", "empty", k)
        return
    models = families.family(fam)[lo:hi]
    for k, m in enumerate(models, start=lo):
        if mode == "derived":
            if k % (4 if fam.startswith("abc") else 2) == 0 or tier != "quick":      # quick: a fixed residue class of each family
                check_derived(m, acc, fam, k)
            continue
        check_model(m, acc, mode, fam, k)


def check_model(m, acc, mode, fam, k, only_alpha=None, only_ovr=None, only_form=None):
    obj, b = bind(m)
    try:
        errs = obj.errors()
    except BaseException as e:
        acc.violation(None, {"fam": fam, "k": k, "ast": m, "mode": mode}, {"what": "errors() raised", "exc": repr(e)})
        return
    if errs:
        acc.n("skipped_invalid")
        return
    acc.n("models")
    acc.state(m)
    leaves = leaves_of(m)
    comps = compounds_of(m)
    idof = {c: b.memo[c].id for c in comps}
    tvals = set()
    if mode == "plain":
        ovr_sets = [()]
    else:
        # overrides: any <=2 compound nodes (top included) with a constant; a node pre-fixed by its construction bounds may be given
        # either constant - the interpretation wins (evaluate is assume, which "returns a new proposition with these new bounds set")
        cand = list(comps)
        ovr_sets = []
        for r in ((1, 2) if mode == "ovr2" else (1,)):
            for nodes in itertools.combinations(cand, r):
                for consts in itertools.product((0, 1), repeat=r):
                    ovr_sets.append(tuple(zip(nodes, consts)))
    for ai, alpha in enumerate(ref.assignments_dom(leaves, 4)):
        if only_alpha is not None and alpha != only_alpha:
            continue
        for oi, ovr in enumerate(ovr_sets):
            if only_ovr is not None and oi != only_ovr:
                continue
            forms = FORMS if (fam.startswith("abc/") and mode == "plain") else (FORMS[(k + ai + oi) % 4],)
            for form in forms:
                if only_form is not None and form != only_form:
                    continue
                one(m, alpha, ovr, form, idof, acc, fam, k, mode, oi, tvals)
    if len(tvals) > 1:
        acc.nontriv(m)
    if mode == "plain" and only_alpha is None and fam in ("ab/explicit", "at/explicit", "abc/explicit", "abt/explicit") and k % 3 == 0:
        # one leaf OUTSIDE its declared bounds (variable.evaluate documents that such values are taken as given), the others over their range
        base = list(ref.assignments_dom(leaves, 4))
        for i, (lo_, hi_) in leaves.items():
            for out_v in (lo_ - 1, hi_ + 1, hi_ + 2):
                for alpha in base[:: max(1, len(base) // 6)]:
                    al = dict(alpha)
                    al[i] = out_v
                    want = ref.truth(m, al)
                    acc.n("transitions")
                    try:
                        got = bind(m)[0].evaluate({k_: _val(v_, FORMS[(out_v + len(k_)) % 4]) for k_, v_ in al.items()}).as_tuple()
                    except BaseException as e:
                        acc.violation(None, {"fam": fam, "k": k, "ast": m, "mode": "oob"}, {"what": "evaluate raised on an out-of-bounds leaf value", "exc": repr(e), "model": show(m), "alpha": al})
                        break
                    if tuple(map(int, got)) != (want, want):
                        acc.violation(None, {"fam": fam, "k": k, "ast": m, "mode": "oob"},
                                      {"what": "a leaf value outside its declared bounds is not taken as given", "model": show(m), "assignment": al, "expected": want, "got": tuple(map(int, got))})
                        break
    if mode == "plain" and only_alpha is None and (any(bd != (0, 1) for bd in leaves.values()) or k % 4 == 0):
        # (every model with an integer leaf, every fourth boolean one)
        # the SAME object evaluated on every assignment in sequence, forwards and backwards (neighbouring assignments differ in one value, e.g.
        # -1 / -2): whatever the object remembers between calls must not change the answers
        shared, _ = bind(m)
        alphas = list(ref.assignments_dom(leaves, 4))
        for alpha in alphas + alphas[::-1]:
            want = ref.truth(m, alpha)
            acc.n("transitions")
            try:
                got = shared.evaluate(dict(alpha)).as_tuple()
            except BaseException as e:
                acc.violation(None, {"fam": fam, "k": k, "ast": m, "mode": "shared"}, {"what": "evaluate raised on a re-used object", "exc": repr(e), "model": show(m)})
                break
            if tuple(map(int, got)) != (want, want):
                acc.violation(None, {"fam": fam, "k": k, "ast": m, "mode": "shared"},
                              {"what": "the same object evaluated on a sequence of interpretations gives a wrong value (history dependence)", "model": show(m),
                               "assignment": alpha, "expected": want, "got": tuple(map(int, got))})
                break


def one(m, alpha, ovr, form, idof, acc, fam, k, mode, oi, tvals):
    obj, _ = bind(m)          # fresh objects for every execution
    interp = {i: _val(v, form) for i, v in alpha.items()}
    # mixed forms on the quick core: leaf j gets form (j+const)
    ovd = {}
    for (node, const) in ovr:
        interp[idof[node]] = _val(const, FORMS[(FORMS.index(form) + 1) % 4] if form != "np" else "tuple")
        ovd[node] = const
    interp["__not_in_model__"] = 1
    table = {}
    expect_top = ref.truth(m, alpha, ovd, table)
    tvals.add(expect_top)
    case = {"fam": fam, "k": k, "ast": m, "alpha": alpha, "ovr": oi if mode != "plain" else None, "form": form, "mode": mode}
    acc.n("traces")
    acc.n("transitions", 2)
    keys_before, vals_before = list(interp), [repr(v) for v in interp.values()]
    try:
        res = obj.evaluate_propositions(interp)
        obj2, _ = bind(m)
        top = obj2.evaluate(interp)
    except BaseException as e:
        acc.violation(None, case, {"what": "evaluate raised", "exc": repr(e), "model": show(m)})
        return
    if list(interp) != keys_before or [repr(v) for v in interp.values()] != vals_before:
        acc.violation(None, case, {"what": "evaluate changed the caller's interpretation dictionary", "model": show(m), "before": list(zip(keys_before, vals_before)),
                                   "after": {str(k_): repr(v) for k_, v in interp.items()}})
        return
    acc.obs(sorted((str(k_), v.as_tuple()) for k_, v in res.items()), top.as_tuple())
    bad = []
    for node, v in table.items():
        i = node[1] if node[0] == 'L' else idof[node]
        got = res.get(i)
        if got is None or got.as_tuple() != (v, v):
            bad.append((str(i), v, None if got is None else got.as_tuple()))
    if bad:
        acc.violation(None, case, {"what": "node value differs from arithmetic truth function", "model": show(m),
                                   "bad(id,expected,got)": bad})
        return
    if top.as_tuple() != (expect_top, expect_top) or res[idof[m]].as_tuple() != top.as_tuple():
        acc.violation(None, case, {"what": "evaluate() != top entry / reference", "model": show(m),
                                   "expected": expect_top, "evaluate": top.as_tuple()})
        return
    acc.hist("top", expect_top)
    if (len(alpha) + k) % 16 == 0:
        # out= callback form agrees
        obj3, _ = bind(m)
        r2 = obj3.evaluate_propositions(interp, out=lambda x: x.constant)
        acc.n("transitions")
        if {k_: v.constant for k_, v in res.items()} != r2:
            acc.violation(None, case, {"what": "out= callback result differs", "model": show(m)})
    if acc.counts["traces"] % 5000 == 1:
        acc.sample({"model": show(m), "interpretation": {k_: repr(v) for k_, v in interp.items()}, "expected_top": expect_top})


def replay(case, acc):
    from ..runner import tuplify
    if case.get("mode") == "derived":
        check_derived(tuplify(case["ast"]), acc, case["fam"], case["k"], only=case.get("derived"))
        return
    if case.get("mode") == "leaf":
        leaf_models(acc)
        return
    if case.get("mode") in ("shared", "oob"):
        check_model(tuplify(case["ast"]), acc, "plain", case["fam"], case["k"])
        return
    m = tuplify(case["ast"])
    check_model(m, acc, case["mode"], case["fam"], case["k"], only_alpha=case["alpha"], only_ovr=case["ovr"], only_form=case["form"])
