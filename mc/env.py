"""Import the repository under test (current working tree of VERIF_REPO, default /repo).

Pure Python: "rebuilding" = importing the current sources.  The harness asserts that the imported
puan package really lives under the tree being checked.
"""
import os
import sys
import warnings

REPO = os.path.realpath(os.environ.get("VERIF_REPO", "/repo"))
VERIF = os.path.dirname(os.path.dirname(os.path.abspath(__file__)))

warnings.filterwarnings("ignore", category=SyntaxWarning)
if sys.path[0] != REPO:
    sys.path.insert(0, REPO)

import numpy as np  # noqa: E402
import puan  # noqa: E402
import puan.logic.plog as pg  # noqa: E402
import puan.ndarray as pnd  # noqa: E402
import puan.modules.configurator as cc  # noqa: E402

if not os.path.realpath(puan.__file__).startswith(REPO + os.sep):
    sys.stderr.write(f"HARNESS-ERROR: puan imported from {puan.__file__}, expected under {REPO}\n")
    sys.exit(2)


def clear_caches():
    """Reset the process-wide lru caches of the configurator (state under test only in C09)."""
    for name in ("ge_polyhedron", "leafs"):
        attr = cc.StingyConfigurator.__dict__.get(name)
        fn = getattr(attr, "fget", attr)
        if hasattr(fn, "cache_clear"):
            fn.cache_clear()
