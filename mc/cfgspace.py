"""Configurator spaces (C14, C15, C16, C17, C18, C09): rule menu, configurators, priority dictionaries, exact solvers."""
import itertools

from .env import np, puan, pg, cc, pnd
from .ast import C, L
from . import ref


def it(*ids):
    return [L(i) for i in ids]


def _alts(ids):
    """ids: str of single-letter item ids, or a list mixing item ids and ready sub-ASTs (compound alternatives)."""
    return [L(i) if isinstance(i, str) else i for i in ids]


def _dflt(default):
    if isinstance(default, (tuple, list)):
        return tuple(default)              # several defaults: only the first one counts (documented), the list is kept as given
    return (default,) if default else ()


def ccAny(ids, default=None, rid=None):
    return C('Any', rid, _alts(ids), ('default', _dflt(default)))


def ccXor(ids, default=None, rid=None):
    return C('Xor', rid, _alts(ids), ('default', _dflt(default)))


# compound alternatives with explicit ids, so that several rules can refer to the SAME package (one shared object)
P_PACK = C('All', "P", [L("x"), L("y")])
Q_PACK = C('All', "Q", [L("b"), L("c")])


def rule_menu():
    """(name, ast-without-id).  Ordered simplest first."""
    m = [
        ("ccAny(a,b)", ccAny("ab")), ("ccAny(a,b|a)", ccAny("ab", "a")), ("ccAny(a,b|b)", ccAny("ab", "b")),
        ("ccAny(a,b,c)", ccAny("abc")), ("ccAny(a,b,c|a)", ccAny("abc", "a")), ("ccAny(a,b,c|c)", ccAny("abc", "c")),
        ("ccXor(a,b)", ccXor("ab")), ("ccXor(a,b|a)", ccXor("ab", "a")), ("ccXor(a,b|b)", ccXor("ab", "b")),
        ("ccXor(a,b,c|b)", ccXor("abc", "b")), ("ccXor(x,y,z|z)", ccXor("xyz", "z")),
        ("Any(a,b)", C('Any', None, it("a", "b"))), ("Xor(x,y)", C('Xor', None, it("x", "y"))),
        ("AtMost1(a,b,c)", C('AtMost', None, it("a", "b", "c"), 1)), ("AtMost2(a,b,c)", C('AtMost', None, it("a", "b", "c"), 2)),
        ("AtMost2(x,y,z)", C('AtMost', None, it("x", "y", "z"), 2)),
        ("All(a,x)", C('All', None, it("a", "x"))),
        ("a->x", C('Imply', None, [L("a"), L("x")])),
        ("All(a,b)->x", C('Imply', None, [C('All', None, it("a", "b")), L("x")])),
        ("Any(a,b)->All(x,y)", C('Imply', None, [C('Any', None, it("a", "b")), C('All', None, it("x", "y"))])),
        ("a->ccXor(x,y|x)", C('Imply', None, [L("a"), ccXor("xy", "x")])),
        ("a->ccAny(x,y,z|y)", C('Imply', None, [L("a"), ccAny("xyz", "y")])),
        ("x->ccXor(a,b,c|c)", C('Imply', None, [L("x"), ccXor("abc", "c")])),
        ("x->Any(a,b)", C('Imply', None, [L("x"), C('Any', None, it("a", "b"))])),
        # a defaulted compound nested BELOW every kind of plain connective (from_json must hand the configurator's class map down)
        ("AtMost1(ccXor(a,b|a),x)", C('AtMost', None, [ccXor("ab", "a"), L("x")], 1)),
        ("All(ccAny(a,b|b),x)", C('All', None, [ccAny("ab", "b"), L("x")])),
        ("AtLeast2(ccAny(a,b|a),x,y)", C('AtLeast', None, [ccAny("ab", "a"), L("x"), L("y")], 2)),
        ("Any(ccXor(a,b,c|c),x)", C('Any', None, [ccXor("abc", "c"), L("x")])),
        # item ids that sort BEFORE the generated 'VAR<sha>' ids (upper case, digits): the position of the non-default part among the sorted children changes
        ("ccAny(E1,b|E1)", ccAny(["E1", "b"], "E1")), ("ccXor(2,a,c|2)", ccXor(["2", "a", "c"], "2")), ("ccAny(E1,Zz,b|Zz)", ccAny(["E1", "Zz", "b"], "Zz")),
        ("ccAny(x,ccXor(a,b|a)|x)", ccAny(["x", ccXor("ab", "a")], "x")),
        ("ccAny(a,P|a)", ccAny(["a", P_PACK], "a")),
        ("ccXor(a,P|a)", ccXor(["a", P_PACK], "a")),
        ("ccAny(a,P,Q|a)", ccAny(["a", P_PACK, Q_PACK], "a")),
        ("z->P", C('Imply', None, [L("z"), P_PACK])),
        # a default that drags a bundle of >=3 further selections with it (it must still beat the lighter alternatives)
        ("c->All(x,y,z)", C('Imply', None, [L("c"), C('All', None, it("x", "y", "z"))])),
        ("a->All(x,y,z,b)", C('Imply', None, [L("a"), C('All', None, it("x", "y", "z", "b"))])),
        # several defaults, not in id order (the first one is the default; the list itself must survive serialisation as given)
        ("ccXor(a,b,c|b,a)", ccXor("abc", ("b", "a"))), ("ccAny(a,b,c|c,a)", ccAny("abc", ("c", "a"))), ("ccXor(x,y|y,x)", ccXor("xy", ("y", "x"))),
        # the same defaulted consequence once more at the END of the menu: paired with the plain x->Any(a,b) above it, the plain occurrence
        # of the shared inner node Any(a,b) now comes FIRST in rule order (the tagged one first is covered by the pair further up)
        ("x->ccXor(a,b,c|c) late", C('Imply', None, [L("x"), ccXor("abc", "c")])),
        ("Any(P,Q)", C('Any', None, [P_PACK, Q_PACK])),
    ]
    return m


def with_id(rule, rid):
    return C(rule[1], rid, rule[3], rule[4])


def configurators(max_rules=2, policies=("explicit", "generated")):
    """Yields (name, Cfg-AST)."""
    menu = rule_menu()
    for policy in policies:
        for r in range(1, max_rules + 1):
            for idx in itertools.combinations(range(len(menu)), r):
                rules = []
                for n, j in enumerate(idx):
                    rule = menu[j][1]
                    rules.append(with_id(rule, f"R{n + 1}") if policy == "explicit" else rule)
                name = " & ".join(menu[j][0] for j in idx) + f" [{policy}]"
                yield name, C('Cfg', "cfg", rules)


def prio_dicts(level="quick"):
    out = [{}]
    vals = (1, -1, 2, -2)
    for i in "abcxyz":
        for v in vals:
            out.append({i: v})
    for pair in (("a", "b"), ("a", "x"), ("x", "y"), ("b", "y")):
        for v1 in vals:
            for v2 in vals:
                out.append({pair[0]: v1, pair[1]: v2})
    for trip, vv in ((("a", "b", "x"), [(1, 1, 1), (2, 1, 1), (2, -1, 1), (1, 2, -2), (-1, -1, -1), (3, 2, 1), (1, 2, 3), (-3, 2, -1)]),
                     (("c", "y", "z"), [(1, 1, 1), (1, -2, 3), (2, 2, -1)])):
        for v in vv:
            out.append(dict(zip(trip, v)))
    out.append({"R1": 1, "a": -1})
    out.append({"R1": -2})
    out.append({"nope": 5, "a": 1})
    out.append({"a": 0})
    out.append({"a": 0, "b": 1, "x": -1})
    return out


# ---------------------------------------------------------------- exact solvers (environment answers)
# what a failing solver may raise: with a message, WITHOUT arguments (bare class, assert, exhausted iterator), with several arguments
RAISES = [lambda: RuntimeError("solver exploded"), lambda: RuntimeError(), lambda: AssertionError(), lambda: StopIteration(), lambda: KeyError("x"),
          lambda: ValueError(1, 2), lambda: IndexError(), lambda: Exception(), lambda: OSError(5, "io"), lambda: ZeroDivisionError("division by zero")]


class Capture:
    """Solver callable: records what it was given, answers by brute force over the integer box of the columns
    (first optimal point in row-major box order).  mode: 'exact' | 'tag' | 'none' | 'raise'"""

    def __init__(self, mode="exact", exc=0):
        self.mode = mode
        self.exc = exc
        self.calls = []

    def __call__(self, polyhedron, objectives):
        objs = [np.asarray(o) for o in objectives]
        self.calls.append((polyhedron, objs))
        if self.mode == "raise":
            raise RAISES[self.exc]()
        if self.mode == "none":
            return [(None, None, 4) for _ in objs]
        ncols = np.asarray(polyhedron).shape[1] - 1
        if self.mode == "tag":
            return [(np.arange(10, 10 + ncols), 0, 5) for _ in objs]
        pts, feas = feasible_points(polyhedron)
        out = []
        F = pts[feas]
        for o in objs:
            if len(F) == 0:
                out.append((None, None, 4))
                continue
            val = F @ o.astype(np.int64)
            j = int(np.argmax(val))
            out.append((F[j].copy(), int(val[j]), 5))
        return out


class CaptureEmptyLen(Capture):
    """The same solver as a callable OBJECT that is falsy (a memoising solver written as a container: its cache is empty at first).
    Being callable is the contract; truthiness is not."""

    def __len__(self):
        return 0


def feasible_points(polyhedron):
    M = np.asarray(polyhedron, dtype=np.int64)
    bds = [tuple(int(x) for x in v.bounds.as_tuple()) for v in polyhedron.variables[1:]]
    pts = ref.box_points(bds)
    return pts, ref.feasible_mask(M[:, 1:], M[:, 0], pts)
