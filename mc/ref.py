"""Reference semantics - boring on purpose.  Nothing here imports puan."""
import itertools

import numpy as np


# ---------------------------------------------------------------- arithmetic truth function (raw nodes)
def truth(ast, alpha, overrides=None, table=None):
    """Value of an 'N'/'L' AST under leaf assignment alpha (dict id -> int).

    overrides: dict  ast-node -> constant  (node's own variable fixed by the interpretation)
    table:     dict filled with ast-node -> value for every node that is reachable from the top
               without passing *through* a fixed node (a fixed node itself is recorded, its subtree is not).
    """
    k = ast[0]
    if k == 'L':
        v = alpha[ast[1]]
        if table is not None:
            table[ast] = v
        return v
    if k == 'N':
        _, i, sign, value, children, fixed = ast
        if overrides and ast in overrides:
            v = overrides[ast]
            if table is not None:
                table[ast] = v
            # subtree still has a value for the caller that needs it, but is not reported
            return v
        if fixed is not None and fixed[0] == fixed[1]:
            v = fixed[0]
            if table is not None:
                table[ast] = v
            return v
        s = 0
        for c in children:
            s += truth(c, alpha, overrides, table)
        v = 1 if sign * s >= value else 0
        if table is not None:
            table[ast] = v
        return v
    raise ValueError("truth() is defined for raw ASTs only: %r" % (ast,))


# ---------------------------------------------------------------- boolean connectives (independent of truth())
def connective(ast, alpha):
    k = ast[0]
    if k == 'L':
        return alpha[ast[1]]
    if k == 'N':
        return truth(ast, alpha)
    _, kind, i, args, extra = ast
    vals = [connective(a, alpha) for a in args]
    n = sum(1 for v in vals if v)
    if kind in ('All', 'Cfg'):
        return int(all(vals))
    if kind == 'Any':
        return int(any(vals))
    if kind == 'AtLeast':
        if isinstance(extra, tuple) and extra[0] == 'sign':
            s, kk = extra[1], extra[2]
            return int(s * sum(vals) >= kk)
        return int(sum(vals) >= extra)      # arguments are 0/1 for connective formulas; integer leaves count with their value
    if kind == 'AtMost':
        return int(sum(vals) <= extra)
    if kind in ('Xor', 'ExactlyOne'):
        return int(n == 1)
    if kind == 'XNor':
        return int(n != 1)
    if kind == 'Imply':
        return int((not vals[0]) or bool(vals[1]))
    if kind == 'Not':
        return int(not vals[0])
    raise ValueError(kind)


# ---------------------------------------------------------------- brute-force integer points
def box_points(bounds):
    """All integer points of a box, as an (n_points, n_cols) int64 array (row-major product order)."""
    ranges = [np.arange(lo, hi + 1, dtype=np.int64) for lo, hi in bounds]
    if not ranges:
        return np.zeros((1, 0), dtype=np.int64)
    grids = np.meshgrid(*ranges, indexing='ij')
    return np.stack([g.reshape(-1) for g in grids], axis=1)


def feasible_mask(A, b, pts):
    """pts: (P, n).  True where A p >= b for all rows."""
    A = np.asarray(A, dtype=np.int64)
    b = np.asarray(b, dtype=np.int64)
    if A.shape[0] == 0:
        return np.ones(len(pts), dtype=bool)
    return (pts @ A.T >= b[None, :]).all(axis=1)


# ---------------------------------------------------------------- solver-safe form
def solver_safe_ast(ast):
    """No compound child under a negatively signed parent (raw ASTs)."""
    if ast[0] != 'N':
        return True
    _, i, sign, value, children, fixed = ast
    for c in children:
        if c[0] == 'N':
            if sign < 0:
                return False
            if not solver_safe_ast(c):
                return False
    return True


# ---------------------------------------------------------------- enumerations helpers
def assignments(leaves):
    """leaves: dict id -> (lo,hi).  Yields dicts over the full product."""
    ids = list(leaves)
    ranges = [range(leaves[i][0], leaves[i][1] + 1) for i in ids]
    for vals in itertools.product(*ranges):
        yield dict(zip(ids, vals))


def n_assignments(leaves):
    n = 1
    for lo, hi in leaves.values():
        n *= (hi - lo + 1)
    return n


def domain(lo, hi, margin=10):
    """Full range for small leaves; region alphabet for wide ones: [-m..m] + m+1 values at each extreme (inside bounds)."""
    if hi - lo <= 2 * margin + 2:
        return list(range(lo, hi + 1))
    pts = set(range(-margin, margin + 1)) | set(range(lo, lo + margin + 1)) | set(range(hi - margin, hi + 1))
    return sorted(p for p in pts if lo <= p <= hi)


def assignments_dom(leaves, margin=10):
    ids = list(leaves)
    doms = [domain(leaves[i][0], leaves[i][1], margin) for i in ids]
    for vals in itertools.product(*doms):
        yield dict(zip(ids, vals))


def truth_vec(ast, env, table=None):
    """Vectorised truth(): env maps leaf id -> int64 array (all of one shape).  table: ast-node -> array of node values."""
    k = ast[0]
    if k == 'L':
        v = env[ast[1]]
    else:
        _, i, sign, value, children, fixed = ast
        if fixed is not None and fixed[0] == fixed[1]:
            any_leaf = next(iter(env.values()))
            v = np.full(any_leaf.shape, fixed[0], dtype=np.int64)
        else:
            s = None
            for c in children:
                cv = truth_vec(c, env, table)
                s = cv.copy() if s is None else s + cv
            v = (sign * s >= value).astype(np.int64)
    if table is not None:
        table[ast] = v
    return v
