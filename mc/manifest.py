"""Generates /verif/MANIFEST.json from the table below (python -m mc.manifest)."""
import json
import os

from .env import VERIF

TABLE = {
    # id: (technique, level text, level note, design ref)
}


def T(pid, technique, text, note, ref):
    TABLE[pid] = (technique, text, note, ref)


GEN = "bounded exhaustive enumeration on the real implementation"
T("C01", f"{GEN}: every model of the families x every in-bounds assignment; row feasibility vs evaluated top",
  "All models of the stated families (depth<=2(3), <=2(3) children, both signs, every relevant threshold, explicit/generated ids, diamond DAGs, 16-bit and wider leaves by region alphabet) and all their in-bounds assignments are executed; the coverage statement is 'no model inside the bound violates C01'.",
  "trusted: the reference truth function (mc/ref.py), numpy; assumes errors() as filter (C10); beyond the bound nothing is claimed", "4/C01")
T("C03", f"{GEN}: every model x every total interpretation x value form x <=2 id overrides vs arithmetic truth function; objects returned by negate / Not / Imply / reduce vs the arithmetic of the live object",
  "Every node value of every model/interpretation/override inside the bound is compared with an independent bottom-up reference.",
  "trusted: mc/ref.py truth(); filter errors()==[]", "4/C03")
T("C04", f"{GEN}: every connective formula to depth 2 (+negation closure, same-id arguments) built up to five ways (puan.variable / str / one-shot iterators / JSON parsed twice / subclass leaves) + cicJE grammar x all 0/1 assignments",
  "Complete truth tables of every formula inside the bound are compared with boolean semantics written directly on booleans.",
  "trusted: mc/ref.py connective(); independent JSON writer in c04.py", "4/C04")
T("C02", f"{GEN}: every model with <=14 polyhedron columns x ALL integer points of the column box (region grid for columns wider than 22 values, up to 31-bit leaves); lost / spurious leaf parts",
  "All integer points of the column box of every model inside the bound are classified; no satisfying assignment lost, and for solver-safe structures no spurious point.",
  "trusted: mc/ref.py; solver-safe judged on the real object structure", "4/C02")
T("C05", f"{GEN}: negate / Not / double negation edges from every state x every assignment; exact complement, solver-safe, id kept",
  "Every negate edge inside the bound is executed and its complete truth table compared with 1 - reference.",
  "trusted: mc/ref.py truth()/connective()", "4/C05")
T("C06", f"{GEN}: every model x EVERY partial/interval interpretation x every completion; containment; flags vs brute force",
  "All interval interpretations (all deviation counts) of every model inside the bound are executed and compared with the reference range over all completions.",
  "trusted: mc/ref.py", "4/C06")
T("C07", f"{GEN}: assume(d) edges for every dictionary of <=1/2 ids x every interpretation of the remaining leaves; differential + reference",
  "Every assumption dictionary inside the bound is executed on fresh objects on both sides.",
  "trusted: mc/ref.py", "4/C07")
T("C08", f"{GEN}: reduce edges (twice) from states fixed by construction bounds and from assume-edge targets x every free interpretation",
  "Every reduce edge inside the bound is executed; reduced, unreduced and reference values are compared on every interpretation of the free leaves.",
  "trusted: mc/ref.py", "4/C08")
T("C10", f"{GEN}: adversarial id/bounds grammar enumerated completely; errors() vs reference validator (soundness + completeness families)",
  "Every model of the adversarial grammar is validated by the library and by an own-traversal reference validator that never hashes.",
  "trusted: well_defined() in c10.py", "4/C10")
T("C11", f"{GEN}: every small integer system x bound boxes; reduction API vs brute-force solution set, applied twice",
  "Every system of the stated spaces is reduced by the real code and compared with the brute-force solution set and its projection.",
  "trusted: brute force over the box (numpy int64)", "4/C11")
T("C12", f"{GEN}: every small integer system x bound boxes; tighten/row/column bounds and combination counts vs brute force",
  "Every system of the stated spaces; containment, no widening, exact row bounds, direct counts.",
  "trusted: brute force over the box (numpy int64)", "4/C12")
T("C13", f"{GEN}: every integer array of the stated shapes x 7 methods; dominance / dense-rank / direct definitions",
  "Every array inside the bound is compressed by the real code (incl. puan_rspy bit allocation) and judged by exact integer arithmetic.",
  "trusted: the level ordering written in c13.py; 64-bit precondition", "4/C13")
T("C19", f"{GEN}: every small matrix x every points array of ndim 1,2,3; direct A p >= b",
  "Every (matrix, points) pair inside the bound is classified by the three methods and compared with a direct computation incl. output shapes.",
  "trusted: numpy matmul", "4/C19")
T("C20", f"{GEN}: every variable list x dictionary x default x dtype; every context/sub-list/mask; every 2x2 system",
  "Every case inside the bound is compared with the statement taken literally.",
  "trusted: the literal oracle in c20.py", "4/C20")
T("C14", f"{GEN}: every 1..2(3)-rule configurator x every priority dictionary x ALL feasible 0/1 points; objective vs lexicographic key (all pairs by one sort)",
  "For every configurator and dictionary inside the bound the captured objective is checked against the lexicographic key on every pair of feasible points.",
  "trusted: lex_key() in c14.py, brute-force feasible set; -2 tags read from the objects and cross-checked with the rule definitions", "4/C14")
T("C15", f"{GEN}: every model/configurator x objective alphabet x solver answers (exact, tagged, None, raises) x flags (include_virtual_variables, try_reduce_before, only_leafs); alignment by id, optimality",
  "Every combination inside the bound is executed with capture solvers; what the callable receives and what is reported back are compared column by column.",
  "trusted: brute-force exact solver in mc/cfgspace.py; open finding D12 (reduced polyhedron of the compiled dependency, try_reduce_before=True with negative lower bounds) is matched by a defect model (see known_findings.json)", "4/C15")
T("C16", f"{GEN}: JSON round-trip edge (twice) from every raw / connective / configurator state; truth tables, ids, defaults, polyhedron modulo generated names",
  "Every state inside the bound is serialised, passed through json.dumps/loads, reloaded and compared with the reference truth of the original on all assignments.",
  "trusted: mc/ref.py; canonical renaming of generated ids in c16.py", "4/C16")
T("C09", "explicit-state exploration of call histories on the real objects: every call sequence of length <=2 (<=3) over ~250 API calls (incl. calls on library-derived objects), each replayed in a child forked from a pristine parent; differential oracle vs pristine observations + deep fingerprints",
  "All call sequences inside the bound over a world of aliased models and equal-but-different configurators are executed; every observation is compared with the pristine process and every transition must leave all object fingerprints unchanged.",
  "trusted: fork() isolation, fingerprint walker (mc/fingerprint.py); cache fill levels are hidden state; open finding D3 is matched by a defect model (see known_findings.json)", "4/C09")
T("C17", f"{GEN}: base64 round-trip edge (twice) from every proposition / configurator / configurator polyhedron state; deep fingerprint + query menu",
  "Every state inside the bound is packed and unpacked; the deep fingerprint must be a self-loop and the query menu must answer identically.",
  "trusted: pickle/gzip/base64 of the standard library; fingerprint walker", "4/C17")
T("C18", "explicit-state exploration of add() sequences: 4 bases x all rule sequences of length <=2 (<=3); every prefix compared with direct construction; fingerprints of earlier configurators unchanged",
  "All addition sequences inside the bound are executed on real objects; each accepted prefix is compared with a directly built configurator (structure, default priorities, polyhedron, exact-solver selections).",
  "trusted: exact solver in mc/cfgspace.py, fingerprint walker", "4/C18")


def build():
    checks = []
    na = []
    for l in open(os.path.join(VERIF, "properties.jsonl")):
        p = json.loads(l)
        pid = p["id"]
        if pid in TABLE and os.path.exists(os.path.join(VERIF, "mc", "props", pid.lower() + ".py")):
            tech, text, note, ref = TABLE[pid]
            checks.append({
                "property_id": pid,
                "quick_cmd": f"./check {pid} quick",
                "thorough_cmd": f"./check {pid} thorough",
                "evidence_file": f"/verif/evidence/{pid}.json",
                "replay_cmd_template": f"./check {pid} --replay {{path}}",
                "engine": "mc",
                "level_claimed": {"category": "model_checking", "text": text, "design_ref": "DESIGN.md section " + ref},
                "level_note": note,
                "technique": tech,
            })
        else:
            na.append({"property_id": pid, "reason": "check not built yet (work in progress; see DESIGN.md section 4 for its design)"})
    man = {
        "version": 1,
        "setup_cmd": "./check SELFCHECK quick",
        "hooks": {
            "guard": "PUAN_VERIF",
            "enable": "no source hooks are needed: checks import /repo's working tree directly (pure Python); PUAN_VERIF is unused by the library",
            "baseline_off_cmd": "cd /repo && /venv/bin/python -m pytest -ra -q -p no:cacheprovider --timeout=900 --continue-on-collection-errors",
            "source_commits": [],
            "add_only": True,
        },
        "engines": [{
            "name": "mc", "path": "/verif/mc",
            "serves_properties": [c["property_id"] for c in checks],
            "kind_free_text": "hand-written explicit-state / bounded-exhaustive explorer over the real Python API (Mode G grammar reachability, Mode H history BFS, Mode M array spaces), 16 forked workers, determinism self-check",
        }],
        "checks": checks,
        "not_applicable": na,
        "notes": "All checks run the real implementation from /repo's working tree (VERIF_REPO overrides for scratch copies). known_findings.json lists genuine defects (open / fixed).",
    }
    with open(os.path.join(VERIF, "MANIFEST.json"), "w") as f:
        json.dump(man, f, indent=1)
    return man


if __name__ == "__main__":
    m = build()
    print("checks:", [c["property_id"] for c in m["checks"]], "not_applicable:", len(m["not_applicable"]))
