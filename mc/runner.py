"""./check <ID> quick|thorough | --replay <path>

Runs one property's exhaustive exploration on the real code in a pool of long-lived worker processes, merges the
shard results in shard order, re-executes one shard in a second process for the determinism self check, matches
violations against known_findings.json and writes evidence/<ID>.json.

exit 0: property held on everything explored (known findings are printed as KNOWN-FINDING lines)
exit 1: at least one violation that is not a listed open finding  (VIOLATION property=<id> replay=<path>)
exit 2: harness error (nondeterminism, wrong tree imported, crash in the harness)
"""
import collections
import hashlib
import importlib
import json
import multiprocessing as mp
import os
import sys
import time
import traceback

from . import env

VERIF = env.VERIF
MAX_KEEP = 12          # violations kept (with full case) per signature per shard


def jsonable(x):
    import numpy as np
    if isinstance(x, dict):
        return {str(k): jsonable(v) for k, v in x.items()}
    if isinstance(x, (list, tuple, set, frozenset)):
        return [jsonable(v) for v in x]
    if isinstance(x, (np.integer,)):
        return int(x)
    if isinstance(x, (np.floating,)):
        return float(x)
    if isinstance(x, np.ndarray):
        return jsonable(x.tolist())
    if isinstance(x, (str, int, float, bool)) or x is None:
        return x
    return repr(x)


def tuplify(x):
    """Inverse of the list-ification json does to AST tuples."""
    if isinstance(x, list):
        return tuple(tuplify(v) for v in x)
    return x


class Acc:
    """Per-shard accumulator; merged in shard order by the parent."""

    def __init__(self):
        self.counts = collections.Counter()
        self.hists = collections.defaultdict(collections.Counter)
        self.states = set()
        self.nontrivial = set()
        self.samples = []
        self.viol = collections.defaultdict(list)   # signature -> [case...]
        self.viol_n = collections.Counter()
        self._h = hashlib.sha256()

    # -- counters
    def n(self, key, k=1):
        self.counts[key] += k

    def hist(self, name, value, k=1):
        self.hists[name][str(value)] += k

    def state(self, key):
        self.states.add(_h64(key))

    def nontriv(self, key):
        self.nontrivial.add(_h64(key))

    def obs(self, *x):
        self._h.update(repr(x).encode())

    def sample(self, case, limit=3):
        if len(self.samples) < limit:
            self.samples.append(jsonable(case))

    def violation(self, signature, case, detail):
        """signature: None = unclassified, else a string naming the defect model the case matches."""
        sig = signature or ("UNCLASSIFIED: " + str((detail or {}).get("what", ""))[:90] if isinstance(detail, dict) else "UNCLASSIFIED")
        self.viol_n[sig] += 1
        if len(self.viol[sig]) < MAX_KEEP:
            self.viol[sig].append({"case": jsonable(case), "detail": jsonable(detail)})
        self._h.update(("V" + sig + repr(jsonable(case))).encode())

    def export(self):
        return {
            "counts": dict(self.counts), "hists": {k: dict(v) for k, v in self.hists.items()},
            "states": self.states, "nontrivial": self.nontrivial, "samples": self.samples,
            "viol": dict(self.viol), "viol_n": dict(self.viol_n), "digest": self._h.hexdigest(),
        }


def _h64(key):
    return int.from_bytes(hashlib.blake2b(repr(key).encode(), digest_size=8).digest(), "big")


def _worker(args):
    modname, tier, desc = args
    mod = importlib.import_module(modname)
    acc = Acc()
    t0 = time.time()
    try:
        env.clear_caches()
        mod.run_shard(desc, acc, tier)
    except BaseException as e:
        # An exception that escapes a check while it executes or judges a library answer: on the unchanged tree no shard raises, so this
        # means the library handed back something the oracle cannot even read (a value of another type or shape). That is a violation
        # with the shard as its replayable case, not a reason to stop the run.
        tb = "".join(traceback.format_exception(type(e), e, e.__traceback__))
        acc.violation(None, {"shard": list(desc) if isinstance(desc, (list, tuple)) else desc, "tier": tier},
                      {"what": "the check could not judge what the library returned (exception while executing / reading an answer)",
                       "exc": repr(e)[:300], "where": tb[-1500:]})
    out = acc.export()
    out["wall"] = time.time() - t0
    out["pid"] = os.getpid()
    return out


def load_known(pid):
    path = os.path.join(VERIF, "known_findings.json")
    if not os.path.exists(path):
        return {}, []
    data = json.load(open(path))
    open_ = {f["signature"]: f for f in data.get("findings", []) if f.get("property") == pid and f.get("status") == "open"}
    fixed = [f for f in data.get("findings", []) if f.get("property") == pid and f.get("status") == "fixed"]
    return open_, fixed


def write_replay(pid, sig, item):
    d = os.path.join(VERIF, "replays", pid)
    os.makedirs(d, exist_ok=True)
    body = {"property": pid, "signature": sig, "case": item["case"], "detail": item["detail"]}
    dig = hashlib.sha256(json.dumps(body, sort_keys=True).encode()).hexdigest()[:16]
    path = os.path.join(d, dig + ".json")
    with open(path, "w") as f:
        json.dump(body, f, indent=1, sort_keys=True)
    return path


def bounds_text(mod, tier):
    """The hand-written BOUNDS string plus, where the module has them, the exact family lists that were enumerated."""
    txt = getattr(mod, "BOUNDS", {}).get(tier, "")
    fams = getattr(mod, "QUICK" if tier == "quick" else "THOROUGH", None)
    if fams:
        txt += " || exact family list enumerated: " + "; ".join(f if isinstance(f, str) else "(" + ", ".join(map(str, f)) + ")" for f in fams)
    return txt


def main(argv):
    if len(argv) < 2:
        print(__doc__)
        return 2
    pid = argv[0].upper()
    modname = f"mc.props.{pid.lower()}"
    mod = importlib.import_module(modname)
    seed = int(os.environ.get("VERIF_SEED", "0") or 0)

    if argv[1] == "--replay":
        return replay(pid, mod, argv[2])

    tier = argv[1]
    if tier not in ("quick", "thorough"):
        print("tier must be quick or thorough")
        return 2
    t0 = time.time()
    descs = list(mod.shards(tier))
    nproc = int(os.environ.get("VERIF_JOBS", "0") or 0) or min(16, os.cpu_count() or 1)
    # seed only decides the order shards are handed out and which shard is executed twice
    order = list(range(len(descs)))
    if seed:
        import random
        random.Random(seed).shuffle(order)
    ctx = mp.get_context("fork")
    results = [None] * len(descs)
    with ctx.Pool(min(nproc, max(1, len(descs)))) as pool:
        it = pool.imap(_worker, [(modname, tier, descs[i]) for i in order], chunksize=1)
        for i, r in zip(order, it):
            results[i] = r
    errs = [r for r in results if "error" in r]
    if errs:
        print("HARNESS-ERROR in shard", errs[0]["desc"])
        print(errs[0]["error"])
        return 2

    # determinism self-check: one shard again, in a fresh process
    chk = order[0] if getattr(mod, "SELFCHECK_SHARD", None) is None else mod.SELFCHECK_SHARD
    chk = seed % len(descs) if seed else chk
    with ctx.Pool(1) as pool:
        again = pool.apply(_worker, ((modname, tier, descs[chk]),))
    if "error" in again or again["digest"] != results[chk]["digest"]:
        print(f"HARNESS-ERROR: nondeterminism - shard {chk} {descs[chk]!r} observed different results when re-executed")
        return 2

    # merge in shard order
    counts = collections.Counter()
    hists = collections.defaultdict(collections.Counter)
    states, nontriv, samples = set(), set(), []
    viol = collections.defaultdict(list)
    viol_n = collections.Counter()
    for r in results:
        counts.update(r["counts"])
        for k, v in r["hists"].items():
            hists[k].update(v)
        states |= r["states"]
        nontriv |= r["nontrivial"]
        for s in r["samples"]:
            if len(samples) < 5:
                samples.append(s)
        for sig, items in r["viol"].items():
            viol[sig].extend(items)
        viol_n.update(r["viol_n"])

    open_known, fixed_known = load_known(pid)
    exit_code = 0
    lines = []
    n_unknown = 0
    for sig in sorted(viol_n):
        if sig in open_known:
            f = open_known[sig]
            write_replay(pid, sig, viol[sig][0])
            lines.append(f"KNOWN-FINDING: property={pid} {f['id']} [{sig}] {f['what']} ({viol_n[sig]} cases in this run)")
        else:
            exit_code = 1
            n_unknown += viol_n[sig]
            path = write_replay(pid, sig, viol[sig][0])
            for extra in viol[sig][1:4]:
                write_replay(pid, sig, extra)
            lines.append(f"VIOLATION property={pid} replay={path}")
            lines.append(f"  signature={sig} cases={viol_n[sig]} first={json.dumps(viol[sig][0])[:600]}")

    post = getattr(mod, "coverage", None)
    cov = {
        "states": len(states) if states else int(counts.get("states", 0)),
        "transitions": int(counts.get("transitions", 0)),
        "traces_validated_against_impl": int(counts.get("traces", 0)),
        "evaluations": int(counts.get("evaluations", counts.get("traces", 0))),
        "distinct_nontrivial": len(nontriv),
        "rule": mod.RULE,
        "samples": samples,
        "exhaustive": True,
        "bounds": bounds_text(mod, tier),
        "shards": len(descs),
        "workers": min(nproc, max(1, len(descs))),
        "determinism_selfcheck": {"shard": chk, "identical_digest": True},
        "counts": {k: int(v) for k, v in sorted(counts.items())},
        "histograms": {k: dict(sorted(v.items())) for k, v in sorted(hists.items())},
        "violations_by_signature": dict(viol_n),
        "known_findings_matched": sorted(s for s in viol_n if s in open_known),
        "hashseed": os.environ.get("PYTHONHASHSEED"),
        "repo": env.REPO,
    }
    if post:
        cov.update(post(tier, counts, hists) or {})
    evidence = {
        "property_id": pid, "tier": tier, "seed": seed, "level": "model_checking",
        "coverage": cov, "assumptions": list(mod.ASSUMPTIONS),
        "wall_s": round(time.time() - t0, 2), "violations": int(n_unknown),
    }
    if pid != "SELFCHECK":
        evdir = os.environ.get("VERIF_EVIDENCE_DIR") or (os.path.join(VERIF, "evidence") if env.REPO == "/repo"
                                                          else os.path.join(VERIF, "scratch", "evidence"))
        os.makedirs(evdir, exist_ok=True)
        with open(os.path.join(evdir, pid + ".json"), "w") as f:
            json.dump(evidence, f, indent=1, sort_keys=True)
    for ln in lines:
        print(ln)
    print(f"{pid} {tier}: states={cov['states']} transitions={cov['transitions']} traces={cov['traces_validated_against_impl']} "
          f"nontrivial={cov['distinct_nontrivial']} shards={len(descs)} violations={n_unknown} wall={evidence['wall_s']}s")
    return exit_code


def replay(pid, mod, path):
    body = json.load(open(path))
    case = body["case"]
    outs = []
    for _ in range(2):   # replay twice, identical observations required
        acc = Acc()
        env.clear_caches()
        if isinstance(case, dict) and "shard" in case and "tier" in case and len(case) == 2:
            try:
                mod.run_shard(tuplify(case["shard"]), acc, case["tier"])
            except BaseException as e:
                acc.violation(None, case, {"what": "the check could not judge what the library returned (exception while executing / reading an answer)", "exc": repr(e)[:300]})
        else:
            mod.replay(case, acc)
        outs.append(acc.export())
    if outs[0]["digest"] != outs[1]["digest"]:
        print("HARNESS-ERROR: replay is not deterministic")
        return 2
    vn = outs[0]["viol_n"]
    open_known, _ = load_known(pid)
    bad = [s for s in vn if s not in open_known]
    for s in vn:
        print(("VIOLATION-REPRODUCED" if s in bad else "KNOWN-FINDING-REPRODUCED"), f"property={pid} signature={s}",
              json.dumps(outs[0]["viol"][s][0])[:1500])
    if bad:
        print(f"VIOLATION property={pid} replay={path}")
        return 1
    print(f"replay of {path}: no violation" if not vn else f"replay of {path}: only known findings")
    return 0


if __name__ == "__main__":
    sys.exit(main(sys.argv[1:]))
