"""Plain-tuple formula AST, binding to real puan objects, and canonical structural keys.

AST forms (hashable tuples, no puan import needed to describe a case):

  ('L', id, lo, hi)                                  leaf variable
  ('N', id|None, sign, value, (children...), fixed)  raw AtLeast node; id None = generated id;
                                                     fixed in {None,(0,0),(1,1),(0,1)} = bounds of the node's own variable
  ('C', kind, id|None, (args...), extra)             connective: All Any AtLeast AtMost Xor ExactlyOne XNor Imply Not
                                                     extra: k for AtLeast/AtMost; ('sign', s, k) for explicitly signed AtLeast;
                                                     ('default', ids) for cc.Any / cc.Xor
Equal sub-tuples are bound to ONE shared object when share=True (DAG), to equal copies otherwise.
"""
from .env import puan, pg, cc


def L(id, lo=0, hi=1):
    return ('L', id, lo, hi)


def N(id, sign, value, children, fixed=None):
    return ('N', id, sign, value, tuple(children), fixed)


def C(kind, id, args, extra=None):
    return ('C', kind, id, tuple(args), extra)


class Item(puan.variable):
    """What a user's domain class looks like (the pinned suite builds models over such subclasses)."""
    pass


class Binder:
    """Builds fresh puan objects for an AST through the public constructors."""

    def __init__(self, share=True, leaf_as_str=False, as_iter=False, leaf_subclass=False):
        self.share = share
        self.leaf_as_str = leaf_as_str
        self.leaf_subclass = leaf_subclass      # leaves as instances of a user-defined subclass of puan.variable
        self.as_iter = as_iter      # hand list-typed `propositions` arguments over as one-shot iterators
        self.memo = {}     # ast -> object (last built)
        self.calls = 0     # constructor calls (transitions)

    def bind(self, ast):
        if self.share and ast in self.memo:
            return self.memo[ast]
        obj = self._build(ast)
        self.memo[ast] = obj
        return obj

    def _build(self, ast):
        k = ast[0]
        if k == 'L':
            _, i, lo, hi = ast
            if self.leaf_as_str and (lo, hi) == (0, 1) and isinstance(i, str):
                return i
            if self.leaf_subclass:
                return Item(i, (lo, hi))
            return puan.variable(i, (lo, hi))
        if k == 'N':
            _, i, sign, value, children, fixed = ast
            kids = [self.bind(c) for c in children]
            var = i if fixed is None else puan.variable(i, fixed)
            self.calls += 1
            return pg.AtLeast(value, kids, variable=var, sign=sign)
        if k == 'C':
            _, kind, i, args, extra = ast
            kids = [self.bind(c) for c in args]
            self.calls += 1
            if kind == 'All':
                return pg.All(*kids, variable=i)
            if kind == 'Any':
                if extra and extra[0] == 'default':
                    return cc.Any(*kids, default=list(extra[1]) if extra[1] else None, variable=i)
                return pg.Any(*kids, variable=i)
            if self.as_iter:
                kids = iter(kids) if kind in ('AtLeast', 'AtMost') else kids
                if kind in ('AtLeast', 'AtMost') and isinstance(extra, int):
                    import numpy as _np
                    extra = _np.int64(extra)      # thresholds as numpy integers as well
            if kind == 'AtLeast':
                if isinstance(extra, tuple) and extra[0] == 'sign':
                    return pg.AtLeast(extra[2], kids, variable=i, sign=extra[1])
                return pg.AtLeast(extra, kids, variable=i)
            if kind == 'AtMost':
                return pg.AtMost(extra, kids, variable=i)
            if kind == 'Xor':
                if extra and extra[0] == 'default':
                    return cc.Xor(*kids, default=list(extra[1]) if extra[1] else None, variable=i)
                return pg.Xor(*kids, variable=i)
            if kind == 'ExactlyOne':
                return pg.ExactlyOne(*kids, variable=i)
            if kind == 'XNor':
                return pg.XNor(*kids, variable=i)
            if kind == 'Imply':
                return pg.Imply(kids[0], kids[1], variable=i)
            if kind == 'Not':
                return pg.Not(kids[0])
            if kind == 'Cfg':
                return cc.StingyConfigurator(*kids, id=i)
            raise ValueError(kind)
        raise ValueError(ast)


def bind(ast, share=True, leaf_as_str=False, as_iter=False, leaf_subclass=False):
    b = Binder(share, leaf_as_str, as_iter, leaf_subclass)
    return b.bind(ast), b


def is_var(x):
    return issubclass(x.__class__, puan.variable)


def walk(obj, seen=None):
    """All node objects reachable over .propositions (own traversal, identity based; no hashing of puan objects)."""
    if seen is None:
        seen = {}
    if id(obj) in seen:
        return seen
    seen[id(obj)] = obj
    if not is_var(obj):
        for p in obj.propositions:
            walk(p, seen)
    return seen


def record(o):
    if is_var(o):
        return ('variable', type(o).__name__, _idk(o.id), o.bounds.as_tuple())
    rec = (type(o).__name__, _idk(o.id), int(o.sign), int(o.value),
           tuple(_idk(p.id) for p in o.propositions), o.bounds.as_tuple(), bool(o.generated_id))
    extra = []
    if hasattr(o, 'prio'):
        extra.append(('prio', o.prio))
    if hasattr(o, 'default'):
        extra.append(('default', tuple(_idk(d.id) for d in o.default)))
    return rec + (tuple(extra),)


def _idk(i):
    return i if isinstance(i, str) else repr(i)


def structure(obj):
    """Canonical key: sorted set of per-node records."""
    return tuple(sorted(set(record(o) for o in walk(obj).values()), key=repr))


def nodes_by_id(obj):
    """id -> list of distinct records carrying that id (for well-definedness reasoning)."""
    out = {}
    for o in walk(obj).values():
        out.setdefault(o.id, set()).add(record(o))
    return out


def leaves_of(ast, acc=None):
    """Ordered dict id -> (lo,hi) of leaves in an AST."""
    if acc is None:
        acc = {}
    k = ast[0]
    if k == 'L':
        acc.setdefault(ast[1], (ast[2], ast[3]))
    elif k == 'N':
        for c in ast[4]:
            leaves_of(c, acc)
    elif k == 'C':
        for c in ast[3]:
            leaves_of(c, acc)
    return acc


def compounds_of(ast, acc=None):
    """All 'N'/'C' sub-ASTs (distinct tuples), top first."""
    if acc is None:
        acc = []
    if ast[0] in ('N', 'C'):
        if ast not in acc:
            acc.append(ast)
        for c in (ast[4] if ast[0] == 'N' else ast[3]):
            compounds_of(c, acc)
    return acc


def show(ast):
    """Compact human-readable rendering of an AST."""
    k = ast[0]
    if k == 'L':
        return ast[1] if (ast[2], ast[3]) == (0, 1) else f"{ast[1]}[{ast[2]},{ast[3]}]"
    if k == 'N':
        _, i, sign, value, ch, fixed = ast
        s = f"{i or '_'}:{'+' if sign > 0 else '-'}({','.join(show(c) for c in ch)})>={value}"
        if fixed is not None:
            s += f"@{fixed}"
        return s
    _, kind, i, args, extra = ast
    s = f"{kind}{'' if extra is None else repr(extra)}({','.join(show(c) for c in args)})"
    return s if i is None else f"{i}={s}"


def solver_safe_obj(obj):
    """Real structure: no compound child under a negatively signed parent (over the whole DAG)."""
    for o in walk(obj).values():
        if not is_var(o) and o.sign < 0:
            if any(not is_var(p) for p in o.propositions):
                return False
    return True


def arith_eval_obj(obj, alpha, memo=None):
    """Independent arithmetic evaluation over a live object's structure (used for derived states that have no AST)."""
    if memo is None:
        memo = {}
    if id(obj) in memo:
        return memo[id(obj)]
    if is_var(obj):
        lo, hi = obj.bounds.as_tuple()
        v = alpha[obj.id] if obj.id in alpha else (lo if lo == hi else None)
    else:
        lo, hi = obj.bounds.as_tuple()
        if lo == hi:
            v = lo
        else:
            s = 0
            for p in obj.propositions:
                s += arith_eval_obj(p, alpha, memo)
            v = 1 if obj.sign * s >= obj.value else 0
    memo[id(obj)] = v
    return v
