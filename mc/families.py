"""Named, cached model families shared by the Mode-G checks.  A shard is (family, lo, hi)."""
import functools
import itertools

from . import spaces
from .ast import L, N, compounds_of


@functools.lru_cache(maxsize=None)
def family(name):
    """Returns a tuple of ASTs.  Names:  <leaves>/<policy>[/w3]   e.g. 'abc/explicit', 'abct/generated', 'abcd/explicit/w3'
       'diamond/<policy>', 'fixed/<leaves>' (one compound pre-fixed), 'const/<leaves>' (with k0/k1 leaves),
       'wide/<n>' (16-bit leaves)."""
    parts = name.split('/')
    if parts[0] == 'diamond':
        return tuple(spaces.diamonds(policy=parts[1]))
    if parts[0] == 'fixed':
        return tuple(_fixed(parts[1]))
    if parts[0] == 'wide':
        return tuple(_wide(parts[1]))
    if parts[0] == 'd3':
        return tuple(_d3(parts[1], parts[2]))
    if parts[0] == 'mix3':
        return tuple(_mix3(parts[1], parts[2]))
    if parts[0] == 'notraw':
        # Not(m) / Imply(m, z) for every raw model m of another family (name with '+' for '/'): negation over integer leaves
        base = family(parts[1].replace('+', '/'))
        z = L('z')
        out = []
        for m in base:
            if m[0] == 'N' and any(c[0] == 'N' for c in m[4]):
                out.append(spaces.C('Not', None, [m]))
                out.append(spaces.C('Imply', None, [m, z]))
        return tuple(out)
    if parts[0] == 'alt':
        # the same models with ids renamed so that, sorted by id, atoms and compounds INTERLEAVE under one parent (children are kept
        # sorted by id; the standard names put every compound before every atom)
        return tuple(_rename(m, ALT_EXPLICIT) for m in family(parts[1].replace('+', '/')))
    if parts[0] == 'altg':
        # generated compound ids ('VAR<sha>'): atoms named to sort on both sides of them
        return tuple(_rename(m, ALT_GENERATED) for m in family(parts[1].replace('+', '/')))
    if parts[0] == 'sameid':
        return tuple(_sameid(parts[1]))
    if parts[0] == 'mix3b':
        return tuple(_mix3b(parts[1], parts[2]))
    if parts[0] == 'illdef':
        return tuple(_illdef())
    if parts[0] == 'empty':
        return tuple(_empty())
    if parts[0] == 'atmostneg':
        return tuple(_atmostneg(parts[1]))
    if parts[0] in ('conn3', 'closure3'):
        return tuple(_conn3(parts))
    if parts[0] in ('conn1', 'conn2', 'closure', 'conn2s', 'conn1s'):
        return tuple(_conn(parts))
    leaf_ids = _leafids(parts[0])
    policy = parts[1]
    w = 3 if (len(parts) > 2 and parts[2] == 'w3') else 2
    return tuple(spaces.models_d2(leaf_ids, w=w, policy=policy))


def _leafids(s):
    out = []
    i = 0
    while i < len(s):
        if s[i] == 'k':
            out.append(s[i:i + 2])
            i += 2
        else:
            out.append(s[i])
            i += 1
    return tuple(out)


def _fixed(leaves):
    """Depth-2 explicit-id models over `leaves` where one non-top compound (and, separately, nothing else) carries
    constant bounds (0,0) or (1,1) on its own variable."""
    for m in spaces.models_d2(_leafids(leaves), w=2, policy='explicit'):
        kids = [c for c in m[4] if c[0] == 'N']
        if not kids:
            continue
        for j, c in enumerate(m[4]):
            if c[0] != 'N':
                continue
            for fx in ((0, 0), (1, 1)):
                nc = N(c[1], c[2], c[3], c[4], fx)
                ch = list(m[4])
                ch[j] = nc
                # thresholds were chosen for free (0,1) children; keep the node as is - still a valid model
                yield N(m[1], m[2], m[3], ch, None)


def _wide(which):
    """Families with 16-bit leaves (region alphabet is applied by the check, not here)."""
    w = L('w', -32768, 32767)
    v = L('v', 0, 32767)
    if which == '2':
        # beyond 16 bits: big-M constants above 2^24 (not representable in float32) and above 2^31
        w = L('w', -20000001, 20000000)
        v = L('v', 0, 2147483649)
    a = L('a')
    b = L('b')
    out = []
    if which in ('1', '2'):
        for leafs in ([w], [w, a], [v], [v, a], [w, v]):
            for s in (1, -1):
                for val in (-3, -1, 0, 1, 2, 4):
                    out.append(N('A', s, val, leafs))
        # nested: inner over a wide leaf, outer mixes
        for s1 in (1, -1):
            for v1 in (-2, 0, 1, 3):
                inner = N('B', s1, v1, [w])
                inner2 = N('B', s1, v1, [w, a])
                for s2 in (1, -1):
                    for v2 in (-1, 0, 1, 2):
                        out.append(N('A', s2, v2, [inner, b]))
                        out.append(N('A', s2, v2, [inner2, b]))
                        out.append(N('A', s2, v2, [inner, w]))
                        out.append(N('A', s2, v2, [inner, v]))
    return out


def _d3(leaves, policy):
    """Depth-3 chains: top over {X, leaf?}, X over {Y, leaf?}, Y over leaves; w=2."""
    leaf_ids = _leafids(leaves)
    d1 = spaces.depth1_nodes(leaf_ids[:2], 2)
    lv = [spaces.leaf(i) for i in leaf_ids]
    for Y in d1:
        for e1 in [None] + lv:
            ch1 = [Y] + ([e1] if e1 is not None else [])
            for s1 in (1, -1):
                for v1 in spaces.thresholds(ch1, s1):
                    X = N(None, s1, v1, ch1)
                    for e2 in [None] + lv:
                        ch2 = [X] + ([e2] if e2 is not None else [])
                        for s2 in (1, -1):
                            for v2 in spaces.thresholds(ch2, s2):
                                yield spaces.assign_ids(N(None, s2, v2, ch2), policy)


def shards_for(names, per_shard):
    """[(name, lo, hi)] covering every family completely."""
    out = []
    for nm in names:
        n = len(family(nm))
        for lo in range(0, n, per_shard):
            out.append((nm, lo, min(n, lo + per_shard)))
    return out


def _conn(parts):
    """conn1/<leaves>/<policy>[/a3]   depth-1 connective formulas
       conn2/<leaves>/<policy>[/a3]   depth-2 (outer <=2 args unless a3; inner <=2 args)
       conn1s, conn2s                 same with explicitly signed AtLeast(k<=0 / sign=-1) variants
       closure/<leaves>/<policy>      Not(X), Imply(X,z), Imply(z,X), XNor(X,z) for every depth-2 X (z = fresh leaf 'z')"""
    kind, leaves, policy = parts[0], _leafids(parts[1]), parts[2]
    a3 = len(parts) > 3 and parts[3] == 'a3'
    signed = kind.endswith('s')
    if kind in ('conn1', 'conn1s'):
        base = spaces.conn_d1(leaves, 3 if a3 else 2, with_signed=signed)
    elif kind in ('conn2', 'conn2s'):
        base = spaces.conn_d2(leaves, 3 if a3 else 2, 2, with_signed=signed)
    else:
        z = L('z')
        base = []
        for X in spaces.conn_d2(leaves, 2, 2):
            base.append(spaces.C('Not', None, [X]))
            base.append(spaces.C('Imply', None, [X, z]))
            base.append(spaces.C('Imply', None, [z, X]))
            base.append(spaces.C('XNor', None, [X, z]))
    return [spaces.name_ids(f, policy) for f in base]


def _mix3(leaves, policy):
    """Three-children tops: one depth-1 compound over the first two leaves plus TWO atoms (every pair of the leaf set, so boolean
    and integer atoms with negative lower bounds are mixed under one parent); all signs / relevant thresholds."""
    leaf_ids = _leafids(leaves)
    d1 = spaces.depth1_nodes(leaf_ids[:2], 2)
    lv = [spaces.leaf(i) for i in leaf_ids]
    for X in d1:
        for l1, l2 in itertools.combinations(lv, 2):
            ch = [X, l1, l2]
            for s in (1, -1):
                for v in spaces.thresholds(ch, s, clip=6):
                    yield spaces.assign_ids(N(None, s, v, ch), policy)


ALT_EXPLICIT = {"A": "n00", "B": "n02", "C": "n04", "D": "n06", "E": "n08", "F": "n10",
                "a": "n01", "w": "n015", "t": "n025", "b": "n03", "v": "n035", "u": "n045", "c": "n05", "n": "n065", "d": "n07",
                "x": "n085", "y": "n09", "z": "n095"}
ALT_GENERATED = {"a": "Aa", "b": "Wb", "c": "Ac", "d": "Wd", "t": "Wt", "u": "Au", "n": "Wn", "x": "Ax", "y": "Wy", "z": "Az", "w": "Ww", "v": "Av"}


def _rename(ast, table):
    def r(i):
        return table.get(i, i) if isinstance(i, str) else i
    k = ast[0]
    if k == 'L':
        return ('L', r(ast[1]), ast[2], ast[3])
    if k == 'N':
        return ('N', r(ast[1]), ast[2], ast[3], tuple(_rename(c, table) for c in ast[4]), ast[5])
    _, kind, i, args, extra = ast
    if isinstance(extra, tuple) and extra and extra[0] == 'default':
        extra = ('default', tuple(r(x) for x in extra[1]))
    return ('C', kind, r(i), tuple(_rename(c, table) for c in args), extra)


def _mix3b(leaves, policy):
    """Three-children tops with TWO compounds and one atom: X over the first leaf, Y over the second, plus every leaf as the atom."""
    leaf_ids = _leafids(leaves)
    lv = [spaces.leaf(i) for i in leaf_ids]
    for X in spaces.depth1_nodes(leaf_ids[:1], 1):
        for Y in spaces.depth1_nodes(leaf_ids[1:2], 1):
            for l in lv:
                ch = [X, Y, l]
                for s in (1, -1):
                    for v in spaces.thresholds(ch, s, clip=6):
                        yield spaces.assign_ids(N(None, s, v, ch), policy)


def _sameid(leaves):
    """Two DIFFERENT arguments of one connective that carry the SAME id:
    (1) a depth-1 formula X with an explicit id next to Not(X) (negation keeps a given id), under every two/three-argument connective;
    (2) generated ids that coincide: the generated id is a digest of the child ids written one after the other, so X over ('ab','c') and
        Y over ('a','bc') get one id although they are different propositions.
    Such models are rejected by errors(); their evaluation is still defined (and correct on the unchanged library)."""
    leaf_ids = _leafids(leaves)
    z = L('z')
    pairs = []
    for X in spaces.conn_d1(leaf_ids[:2], 2):
        Xn = spaces.C(X[1], "P", X[3], X[4])
        pairs.append((Xn, spaces.C('Not', None, [Xn])))
    ab, c, a, bc = L('ab'), L('c'), L('a'), L('bc')
    for kind in ('All', 'Any', 'Xor'):
        for kind2 in ('All', 'Any', 'Xor'):
            pairs.append((spaces.C(kind, None, [ab, c]), spaces.C(kind2, None, [a, bc])))
    out = []
    for X, Y in pairs:
        for args in ([X, Y], [Y, X], [X, Y, z]):
            out.append(spaces.C('All', None, args))
            out.append(spaces.C('Any', None, args))
            out.append(spaces.C('Xor', None, args))
            out.append(spaces.C('XNor', None, args))
            for k in range(1, len(args) + 1):
                out.append(spaces.C('AtLeast', None, args, k))
                out.append(spaces.C('AtMost', None, args, k - 1))
        out.append(spaces.C('Imply', None, [X, Y]))
        out.append(spaces.C('Imply', None, [Y, X]))
        out.append(spaces.C('Imply', None, [spaces.C('All', None, [X, Y]), z]))
    return out


def _conn3(parts):
    """conn3/<leaves>/<policy>: every connective over THREE arguments [X, l1, l2] with X a depth-1 formula over the first two leaves and
    l1,l2 two leaves (compound mixed with two atoms).  closure3: Not / Imply / XNor wrappers of those."""
    kind, leaves, policy = parts[0], _leafids(parts[1]), parts[2]
    lv = [spaces.leaf(i) for i in leaves]
    d1 = spaces.conn_d1(leaves[:2], 2)
    base = []
    for X in d1:
        for l1, l2 in itertools.combinations(lv, 2):
            args = [X, l1, l2]
            base.append(spaces.C('All', None, args))
            base.append(spaces.C('Any', None, args))
            for k in range(1, 5):
                base.append(spaces.C('AtLeast', None, args, k))
            for k in range(0, 4):
                base.append(spaces.C('AtMost', None, args, k))
            base.append(spaces.C('Xor', None, args))
            base.append(spaces.C('XNor', None, args))
    if kind == 'closure3':
        z = L('z')
        out = []
        for X in base:
            if X[1] in ('All', 'Any', 'AtLeast'):
                out.append(spaces.C('Not', None, [X]))
                out.append(spaces.C('Imply', None, [X, z]))
                out.append(spaces.C('XNor', None, [X, z]))
        base = out
    return [spaces.name_ids(f, policy) for f in base]


def _atmostneg(policy):
    """AtMost / AtLeast objects with NEGATIVE thresholds over integer leaves (meaningful only there), alone and nested."""
    t, n, a = spaces.leaf('t'), spaces.leaf('n'), spaces.leaf('a')
    out = []
    for args in ([t], [n], [t, n], [t, a], [n, a]):
        for k in range(-4, 3):
            am = spaces.C('AtMost', None, args, k)
            out.append(am)
            out.append(spaces.C('All', None, [am, spaces.leaf('b')]))
            out.append(spaces.C('Any', None, [am, spaces.leaf('b')]))
        for k in range(1, 4):
            al = spaces.C('AtLeast', None, args, k)
            out.append(spaces.C('Any', None, [al, spaces.leaf('b')]))
    return [spaces.name_ids(f, policy) for f in out]


def _empty():
    """Compound nodes WITHOUT children (accepted by errors()): value in {-1,0,1} x sign, alone and next to other children."""
    out = []
    for s in (1, -1):
        for v in (-1, 0, 1):
            E = N("E", s, v, [])
            out.append(N("A", 1, 1, [E]))
            for s2 in (1, -1):
                for v2 in (-1, 0, 1, 2):
                    out.append(N("A", s2, v2, [E, L("a")]))
                    out.append(N("A", s2, v2, [E, N("B", 1, 1, [L("a"), L("b")])]))
    return out


def _illdef():
    """One id with two different definitions below different parents (differing only in sign over a box symmetric around 0; in the value
    -1 / -2; in bounds of equal hash sum).  errors() rejects all of them on the unchanged tree (they are then skipped and counted); a library
    that accepts one has declared it valid, and the checks apply."""
    t, a, b, x, y = spaces.leaf('t'), spaces.leaf('a'), spaces.leaf('b'), L('x'), L('y')
    u1, u2 = L('u', 0, 3), L('u', 1, 2)
    pairs = [(N("B", 1, 1, [t]), N("B", -1, 1, [t])), (N("B", 1, 0, [t]), N("B", -1, 0, [t])),
             (N("B", -1, -1, [a, b]), N("B", -1, -2, [a, b])), (N("B", 1, 2, [u1]), N("B", 1, 2, [u2])),
             (N("B", 1, 1, [a, b]), N("B", 1, 1, [a, t]))]
    out = []
    for B1, B2 in pairs:
        for (s1, v1), (s2, v2) in (((1, 1), (1, 1)), ((1, 2), (1, 1)), ((1, 1), (-1, 0))):
            X = N("X", s1, v1, [B1, x])
            Y = N("Y", s2, v2, [B2, y])
            for st, vt in ((1, 1), (1, 2), (-1, -1)):
                out.append(N("T", st, vt, [X, Y]))
    return out
