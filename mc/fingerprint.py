"""Deep, identity-preserving fingerprints of live objects and of the process-wide hidden state (Mode H, C17)."""
import enum
import types

from .env import np, puan, pg, pnd, cc


def fingerprint(obj, memo=None):
    """Canonical nested tuple.  Every attribute of every reachable object's __dict__ is included (so an attribute added by a
    future change is part of the state).  Objects reached twice are replaced by a back reference ('ref', n): aliasing is visible."""
    if memo is None:
        memo = {}
    return _fp(obj, memo)


def _fp(o, memo):
    if o is None or isinstance(o, (bool, str, bytes)):
        return o
    if isinstance(o, enum.Enum):
        return ("enum", type(o).__name__, o.name)
    if isinstance(o, (int, np.integer)):
        return int(o)
    if isinstance(o, (float, np.floating)):
        return ("f", repr(float(o)))
    if isinstance(o, np.dtype):
        return ("dtype", str(o))
    if isinstance(o, type):
        return ("type", o.__module__, o.__qualname__)
    if isinstance(o, (types.FunctionType, types.BuiltinFunctionType, types.MethodType)):
        return ("fn", getattr(o, "__qualname__", repr(o)))
    oid = id(o)
    if oid in memo:
        return ("ref", memo[oid])
    if isinstance(o, np.ndarray):
        memo[oid] = len(memo)
        body = ("nd", type(o).__name__, str(o.dtype), o.shape, _fp(o.tolist(), memo))
        extra = getattr(o, "__dict__", None)
        if extra:
            body += (tuple((k, _fp(v, memo)) for k, v in sorted(extra.items())),)
        return body
    if isinstance(o, (list, tuple)):
        return (type(o).__name__,) + tuple(_fp(x, memo) for x in o)
    if isinstance(o, (set, frozenset)):
        return ("set",) + tuple(sorted((_fp(x, memo) for x in o), key=repr))
    if isinstance(o, dict):
        return ("dict",) + tuple((_fp(k, memo), _fp(v, memo)) for k, v in sorted(o.items(), key=lambda kv: repr(kv[0])))
    memo[oid] = len(memo)
    d = getattr(o, "__dict__", None)
    if d is not None:
        # per-instance memo attributes (_cached_*) are hidden cache state like the lru caches: see memo_state()
        return ("obj", type(o).__module__ + "." + type(o).__qualname__, memo[oid]) + tuple(
            (k, _fp(v, memo)) for k, v in sorted(d.items()) if not k.startswith("_cached_"))
    return ("repr", repr(o))


def hidden_state():
    """Process-wide state the library keeps outside the objects: lru caches, module-level mutable globals, default arguments."""
    out = []
    for mod in (puan, pg, pnd, cc):
        for name, val in sorted(vars(mod).items()):
            if isinstance(val, type) and val.__module__ == mod.__name__:
                for an, av in sorted(vars(val).items()):
                    fn = getattr(av, "fget", av)
                    fn = getattr(fn, "__func__", fn)
                    if hasattr(fn, "cache_info"):
                        out.append(("cache", mod.__name__, name, an, fn.cache_info().currsize))
                    raw = getattr(fn, "__wrapped__", fn)
                    if isinstance(raw, types.FunctionType):
                        out.append(("defaults", mod.__name__, name, an, repr(raw.__defaults__), repr(raw.__kwdefaults__)))
            elif isinstance(val, types.FunctionType) and val.__module__ == mod.__name__:
                out.append(("defaults", mod.__name__, name, "", repr(val.__defaults__), repr(val.__kwdefaults__)))
            elif isinstance(val, (list, dict, set)) and not name.startswith("__"):
                out.append(("global", mod.__name__, name, repr(val)))
    return tuple(out)


def diff(a, b, path="", out=None, limit=12):
    """Paths at which two fingerprints differ (for explanations)."""
    if out is None:
        out = []
    if len(out) >= limit:
        return out
    if type(a) != type(b) or not isinstance(a, tuple):
        if a != b:
            out.append((path, a if not isinstance(a, tuple) else "...", b if not isinstance(b, tuple) else "..."))
        return out
    if len(a) != len(b):
        out.append((path + "/len", len(a), len(b)))
        return out
    # ("k", value) pairs of objects: descend with the key in the path
    for i, (x, y) in enumerate(zip(a, b)):
        if x == y:
            continue
        label = str(i)
        if isinstance(x, tuple) and len(x) == 2 and isinstance(x[0], str) and isinstance(y, tuple) and len(y) == 2 and y[0] == x[0]:
            diff(x[1], y[1], path + "/" + x[0], out, limit)
        else:
            diff(x, y, path + "/" + label, out, limit)
    return out


def memo_state(objs, canon=None):
    """Per-instance memo attributes (_cached_*) of every node of a dict name -> object: (owner, node id, attribute, content).
    The content matters: a memo may be filled by a call, but once filled it must not change while the object does not."""
    from .ast import walk
    out = []
    for k in sorted(objs):
        for o in walk(objs[k]).values():
            for a in sorted(getattr(o, "__dict__", {})):
                if a.startswith("_cached_"):
                    v = getattr(o, a)
                    out.append((k, repr(o.id), a, repr(canon(v)) if canon else repr(fingerprint(v))))
    return tuple(out)


def memo_changed(before, after):
    """Memo entries that were filled before and have another content (or vanished) afterwards."""
    b = {e[:3]: e[3] for e in before}
    a = {e[:3]: e[3] for e in after}
    return [(k, b[k][:200], a.get(k, "<gone>")[:200]) for k in b if a.get(k) != b[k]]
