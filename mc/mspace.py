"""Mode M: exhaustive spaces of small integer systems  [b | A]  with per-column variable bounds."""
import itertools

from .env import np, puan, pnd

BOUNDS7 = [(0, 1), (-1, 1), (0, 2), (-2, 0), (1, 1), (0, 3), (-2, 2)]
BOUNDS9 = BOUNDS7 + [(1, 3), (-3, -1)]
BOUNDS3 = [(0, 1), (-1, 1), (0, 2)]
BOUNDS4 = [(0, 1), (-1, 1), (0, 3), (-2, 0)]

# name -> (rows, cols, coefficient alphabet, b alphabet, bounds menu)
SPACES = {
    "1x1": (1, 1, range(-3, 4), range(-4, 5), BOUNDS7),
    "1x2": (1, 2, range(-2, 3), range(-3, 5), BOUNDS7),
    "1x3": (1, 3, range(-2, 3), range(-3, 5), BOUNDS3),
    "2x1": (2, 1, range(-2, 3), range(-3, 5), BOUNDS7),
    "2x2": (2, 2, range(-2, 3), (-1, 0, 1, 2), BOUNDS3),
    "2x2b": (2, 2, (-1, 0, 1, 2), (-2, 0, 1, 3), BOUNDS4),
    "2x3": (2, 3, (-1, 0, 1, 2), (0, 1, 2), [(0, 1), (-1, 1)]),
    "3x2": (3, 2, (-1, 0, 1, 2), (0, 1), [(0, 1), (0, 2)]),
    "2x3q": (2, 3, (-1, 0, 2), (0, 1, 2), [(0, 1), (-1, 1)]),
    "3x2q": (3, 2, (-1, 0, 2), (0, 1), [(0, 1), (0, 2)]),
    "1x2w": (1, 2, range(-3, 4), range(-4, 6), BOUNDS9),
    "2x2p": (2, 2, (-2, -1, 1, 3), (-2, 0, 1, 3), [(1, 3), (-3, -1), (0, 1)]),
    # thorough
    "2x2T": (2, 2, range(-2, 3), range(-3, 5), [(0, 1), (-1, 1), (0, 2), (-2, 0), (0, 3)]),
    "1x3T": (1, 3, range(-3, 4), range(-3, 5), BOUNDS4),
    "2x3T": (2, 3, range(-2, 3), (0, 1, 2), [(0, 1), (-1, 1)]),
    "3x3T": (3, 3, (-1, 0, 1), (0, 1), [(0, 1), (-1, 1)]),
}


def _big_cases():
    """1x1 / 1x2 systems with coefficients of magnitude up to 128 and constants that are exact multiples (and their neighbours): the places
    where a division rounds.  Returned as explicit (M, bounds) pairs."""
    out = []
    for a in [c for c in range(-128, 129) if c != 0]:
        for k in (-3, -2, -1, 0, 1, 2, 3):
            for d in (0, 1, -1):
                b = k * a + d
                for bd in ((0, 1), (-3, 3), (0, 5)):
                    out.append((np.array([[b, a]], dtype=np.int64), [bd]))
        for k in (1, 2, 3):
            for bd2 in ((0, 1), (-1, 2)):
                out.append((np.array([[k * a, a, 1]], dtype=np.int64), [(0, 4), bd2]))
                out.append((np.array([[k * a, a, -1]], dtype=np.int64), [(-4, 4), bd2]))
    return out


_BIG = []


def big_cases():
    if not _BIG:
        _BIG.extend(_big_cases())
    return _BIG


def _narrow_cases():
    """Polyhedra STORED in a narrow integer type (int8 / int16): every entry fits, but substituting a forced column (b - a*value) or a
    row sum leaves the type's range.  x in (0,v) is forced to v by the first row; the second row carries a on x and c on two booleans."""
    out = []
    for dt, v, c in ((np.int8, 100, 120), (np.int16, 32000, 32000), (np.int8, 50, 100)):
        for a in (-3, -2, 2, 3):
            for cc in (c, -c):
                for b2 in (20, 0, -20):
                    out.append((np.array([[v, 1, 0, 0], [b2, a, cc, cc]], dtype=dt), [(0, v), (0, 1), (0, 1)]))
                    out.append((np.array([[b2, a, cc, cc], [v, 1, 0, 0]], dtype=dt), [(0, v), (0, 1), (0, 1)]))
    return out


_NARROW = []


def narrow_cases():
    if not _NARROW:
        _NARROW.extend(_narrow_cases())
    return _NARROW


def size(name):
    if name == "narrow":
        return len(narrow_cases())
    if name == "big":
        return len(big_cases())
    r, c, ca, ba, bm = SPACES[name]
    return len(ca) ** (r * c) * len(ba) ** r * len(bm) ** c


def case_at(name, idx):
    """Decode index -> (M, bounds): M is the (r, c+1) int matrix [b|A]."""
    if name == "narrow":
        M, bds = narrow_cases()[idx]
        return M.copy(), list(bds)
    if name == "big":
        M, bds = big_cases()[idx]
        return M.copy(), list(bds)
    r, c, ca, ba, bm = SPACES[name]
    ca, ba = list(ca), list(ba)
    coefs = []
    for _ in range(r * c):
        idx, d = divmod(idx, len(ca))
        coefs.append(ca[d])
    bs = []
    for _ in range(r):
        idx, d = divmod(idx, len(ba))
        bs.append(ba[d])
    bds = []
    for _ in range(c):
        idx, d = divmod(idx, len(bm))
        bds.append(bm[d])
    A = np.array(coefs, dtype=np.int64).reshape(r, c)
    M = np.hstack([np.array(bs, dtype=np.int64).reshape(r, 1), A])
    return M, bds


def polyhedron(M, bds, layout=0):
    """layout 0: C-ordered copy, 1: Fortran-ordered, 2: non-contiguous view (memory layout is not part of the value)."""
    variables = [puan.variable.support_vector_variable()] + [puan.variable(f"x{j}", bd) for j, bd in enumerate(bds)]
    index = [puan.variable(f"r{i}") for i in range(M.shape[0])]
    if layout == 1:
        data = np.asfortranarray(M)
    elif layout == 2:
        big = np.zeros((M.shape[0], 2 * M.shape[1]), dtype=M.dtype)
        big[:, ::2] = M
        data = big[:, ::2]
    else:
        data = M.copy()
    return pnd.ge_polyhedron(data, variables=variables, index=index, dtype=M.dtype)      # stored in the type the matrix comes in (int64 unless a space says otherwise)


def shards_for(names, per_shard):
    out = []
    for nm in names:
        n = size(nm)
        for lo in range(0, n, per_shard):
            out.append((nm, lo, min(n, lo + per_shard)))
    return out
